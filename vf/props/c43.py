"""C43 — HTTP utility parsers and formatters are total and mutually consistent.

Eight sub-monitors, each in its own shards with its own floor (a sub-monitor that
observed fewer cases than its floor makes its shard fail => INCONCLUSIVE):

  reqline / statusline   three-valued RFC 9112 classifier (vf/refs/startline9112.py):
                         MUST-ACCEPT => accepted with the right parts, MUST-REJECT =>
                         HTTPInputError, UNSPECIFIED => counted; never another exception
  totality               _parse_header / parse_cookie / _unquote_cookie / split_host_and_port
                         return for every str
  header_rt              _parse_header(_encode_header(k, p)) == (k, p) for token-valued params
  timestamp              format_timestamp output is an IMF-fixdate that reads back as the instant; a quarter of
                         the cases are HISTORIES of 2-6 calls whose instants lie within ~2 s of each other
                         (same second / either side of a whole-second boundary, all argument types), each
                         call judged on its own (mechanism suffix -after-earlier-calls)
  url_concat             query pairs of result == old pairs ++ args; other components unchanged
  re_unescape            re_unescape(re.escape(s)) == s
  is_valid_ip            plain IPv4/IPv6 text forms accepted; host names, "", NUL rejected
"""
from __future__ import annotations

import datetime
import email.utils
import ipaddress
import re
import time
import traceback
from fractions import Fraction

from vf import core
from vf.refs import startline9112 as sl

core.use_repo()
from tornado import httputil  # noqa: E402
from tornado.httputil import HTTPInputError  # noqa: E402
from tornado.netutil import is_valid_ip  # noqa: E402
from tornado.util import re_unescape  # noqa: E402

PROP = "C43"
META = {
    "level": "exploration",
    "technique": "grammar-directed and mutation generators against independent oracles (three-valued RFC 9112 start-line classifier, IMF-fixdate reader, RFC 3986 splitter + form decoder), totality monitors",
    "level_text": "Each of the eight helper groups named in the statement is executed on generated inputs (grammar-built, single-character mutations of valid forms, Unicode digits/spaces, arbitrary Unicode incl. controls, astral code points and lone surrogates, RFC 2231 parameter forms with every registered Python codec name as charset, digit runs beyond the interpreter's int limit) and judged by an oracle that shares no code with tornado; start lines are judged three-valued so only inputs whose verdict RFC 9112 fixes are gated.",
    "level_note": "Trusts vf/refs/startline9112.py and the small readers in this module; the start-line MUST-ACCEPT class is restricted to request-targets in one of the four RFC 9112 forms built from RFC 3986 characters, everything else made of printable octets (code points up to U+00FF) is UNSPECIFIED, while any line containing a code point above U+00FF is MUST-REJECT (the grammar's alphabet is octets); stdlib ipaddress/re.escape/email.utils.parsedate_to_datetime are used as oracles (not tornado code).",
    "design_ref": "DESIGN.md §4 C43",
    "engine": "oracle",
}
RULE = ("cases are input strings/values drawn per sub-monitor (reqline, statusline, totality, header_rt, timestamp, "
        "url_concat, re_unescape, is_valid_ip) from grammar generators, single-edit mutations and arbitrary Unicode; "
        "a case is non-trivial if it is not the empty input; distinct by (sub-monitor, input)")
FLOORS = {"quick": 100000, "thorough": 3000000}
ASSUMPTIONS = [
    "reference classifier vf/refs/startline9112.py encodes RFC 9112 §3/§4 + RFC 3986 correctly",
    "HTTP versions other than 1.x, lenient whitespace and request-targets made of octets outside RFC 3986 are UNSPECIFIED",
    "a str denotes octets one code point per octet (latin-1); a line with a code point above U+00FF is outside the grammar (MUST-REJECT)",
    "url_concat inputs have ASCII netlocs, no control characters and only valid UTF-8 percent-escapes",
    "format_timestamp inputs lie in 1970-01-01 .. 9998-12-31",
    "is_valid_ip: zone ids, inet_aton short forms, bracketed or port-suffixed addresses are UNSPECIFIED",
]
REQUIRED_COUNTERS = ["oracle_evals", "reqline_must_accept", "reqline_must_reject", "status_must_accept",
                     "status_must_reject", "reqline_must_reject_non_octet", "status_must_reject_non_octet", "totality_calls", "header_rt_evals", "timestamp_evals",
                     "url_concat_evals", "re_unescape_evals", "ip_must_accept", "ip_must_reject",
                     "timestamp_histories", "timestamp_hist_straddle_lt_1s", "timestamp_hist_same_second"]

# ---------------------------------------------------------------------------------------------
# shards

PLAN = {
    # kind: (shards, cases per shard quick, thorough, floor fraction)
    "reqline": (4, 12000, 500000),
    "statusline": (2, 12000, 500000),
    "totality": (4, 8000, 300000),
    "header_rt": (1, 15000, 500000),
    "timestamp": (1, 15000, 500000),
    "url_concat": (2, 8000, 300000),
    "re_unescape": (1, 15000, 500000),
    "is_valid_ip": (1, 8000, 300000),
}


def shards(tier, seed):
    out = []
    for kind, (k, nq, nt) in PLAN.items():
        n = nq if tier == "quick" else nt
        for j in range(k):
            out.append({"kind": kind, "n": n, "j": j, "floor": n // 3})
    return out


_SURR_RE = re.compile("[\ud800-\udfff]")
ESC = "\\surrogate-escaped"


def wrap(payload):
    """Cases must survive core.jsonable, which cannot print a str holding a lone surrogate next to
    other non-ASCII text; such strings travel as (ESC, unicode_escape text) and are restored in run_case."""
    if isinstance(payload, str):
        if _SURR_RE.search(payload):
            return (ESC, payload.encode("unicode_escape").decode("ascii"))
        return payload
    if isinstance(payload, tuple) and len(payload) == 2 and isinstance(payload[1], str):
        return (payload[0], wrap(payload[1]))
    return payload


def unwrap(payload):
    if isinstance(payload, tuple) and len(payload) == 2:
        if payload[0] == ESC:
            return payload[1].encode("ascii").decode("unicode_escape")
        if isinstance(payload[1], tuple):
            return (payload[0], unwrap(payload[1]))
    return payload


def safe(o):
    """Witness sanitiser for the same reason."""
    if isinstance(o, str):
        return o.encode("ascii", "backslashreplace").decode("ascii") if _SURR_RE.search(o) else o
    if isinstance(o, dict):
        return {k: safe(v) for k, v in o.items()}
    if isinstance(o, (list, tuple)):
        return [safe(v) for v in o]
    return o


def gen_cases(spec):
    rng = core.rng_for(spec["seed"], PROP, f"{spec['kind']}:{spec['j']}")
    g = GENS[spec["kind"]]
    for _ in range(spec["n"]):
        yield (spec["kind"], wrap(g(rng)))


def directed_cases():
    # regression witnesses (defects found on the pinned tree, see fixes/C43-*)
    yield ("totality", "example.com:" + "1" * 4301)
    yield ("totality", "form-data; name*=idna''abc")
    yield ("totality", "a; x*=utf\x00-8''%C3%A9")
    yield ("totality", "a; x*=punycode''%FF")
    yield ("totality", "a; x*=undefined''abc")
    yield ("totality", "form-data; name*=utf-8''a; name*0=b")
    yield ("reqline", "GET / HTTP/1.1")
    yield ("reqline", "GET / HTTP/1.\u0663")
    yield ("reqline", "GET / HTTP/1.1\n")
    # code points above U+00FF denote no octet: outside the grammar wherever they stand
    for t in ["/\u0100", "/a\u2028b", "/a\u3000b", "/\U0001f600", "/x\ufeff", "/caf\xe9\u0301", "http://ex\u0101mple.com/", "*\u200b",
              "/a?q=\uff11", "/\ud800"]:
        yield ("reqline", wrap("GET " + t + " HTTP/1.1"))
    for r in ["\u0100", "OK\u2028", "caf\xe9 \u20ac", "\U0001f600", "Not\u3000Found", "OK\udc80"]:
        yield ("statusline", wrap("HTTP/1.1 200 " + r))
    yield ("statusline", "HTTP/1.1 200 OK")
    yield ("statusline", "HTTP/1.1 \u0662\u0660\u0660 OK")
    yield ("statusline", "HTTP/1.1 200 OK\n")
    # call histories: each format_timestamp result stands on its own whatever was formatted just before
    yield ("timestamp", ("hist", 1359312200, (("float", 1359312200.75), ("float", 1359312201.25), ("int", 1359312201),
                                              ("float", 1359312200.5), ("naive", 1359312201, 250000, None))))
    yield ("timestamp", ("hist", 86399, (("int", 86399), ("float", 86399.9990234375), ("float", 86400.0), ("struct", 86399))))


def finish_shard(spec, ctx):
    kind = spec.get("kind")
    if kind is None or ctx.evaluations < spec.get("n", 0):
        return          # replay of a single case (core.replay_main calls finish_shard too)
    seen = ctx.counters.get("cases_" + kind, 0)
    if seen < spec.get("floor", 0):
        raise RuntimeError(f"sub-monitor {kind} observed only {seen} distinct cases (< floor {spec['floor']})")


# ---------------------------------------------------------------------------------------------
# generic text generators

ASCII_PRINT = [chr(c) for c in range(0x20, 0x7f)]
CTLS = [chr(c) for c in list(range(0, 0x20)) + [0x7f]]
LATIN_HI = [chr(c) for c in range(0x80, 0x100)]
ODD = ["\u0660", "\u0663", "\uff11", "\u00b2", "\u2003", "\u00a0", "\u2028", "\u2029", "\u0085", "\u0100",
       "\u20ac", "\ufeff", "\U0001f600", "\U00010000", "\U0010ffff", "\u212a", "\u017f", "\u0130"]
SURR = ["\ud800", "\udfff", "\udc80"]
TCHARS = list("!#$%&'*+-.^_`|~0123456789abcdefghijklmnopqrstuvwxyzABCDEFGHIJKLMNOPQRSTUVWXYZ")
UNRES = list("abcdefghijklmnopqrstuvwxyzABCDEFGHIJKLMNOPQRSTUVWXYZ0123456789-._~")
SUBDELIMS = list("!$&'()*+,;=")


def rand_char(rng, surrogates=True):
    r = rng.random()
    if r < 0.45:
        return rng.choice(ASCII_PRINT)
    if r < 0.55:
        return rng.choice(CTLS)
    if r < 0.65:
        return rng.choice(LATIN_HI)
    if r < 0.80:
        return rng.choice(ODD)
    if r < 0.83 and surrogates:
        return rng.choice(SURR)
    if r < 0.93:
        return chr(rng.choice([rng.randint(0x100, 0xd7ff), rng.randint(0xe000, 0xffff)]))
    return chr(rng.randint(0x10000, 0x10ffff))


def rand_text(rng, maxlen=16, surrogates=True):
    return "".join(rand_char(rng, surrogates) for _ in range(rng.randint(0, maxlen)))


def token(rng, lo=1, hi=8, alphabet=TCHARS):
    return "".join(rng.choice(alphabet) for _ in range(rng.randint(lo, hi)))


def pct(rng):
    return "%" + rng.choice("0123456789ABCDEFabcdef") + rng.choice("0123456789ABCDEFabcdef")


def pchars(rng, lo=0, hi=8, extra=":@"):
    out = []
    for _ in range(rng.randint(lo, hi)):
        r = rng.random()
        if r < 0.7:
            out.append(rng.choice(UNRES))
        elif r < 0.8:
            out.append(rng.choice(SUBDELIMS))
        elif r < 0.9:
            out.append(pct(rng))
        else:
            out.append(rng.choice(extra))
    return "".join(out)


# ---------------------------------------------------------------------------------------------
# start lines

METHODS = ["GET", "POST", "HEAD", "PUT", "DELETE", "OPTIONS", "CONNECT", "PATCH", "get", "M-SEARCH", "PROPFIND"]
MUT_CHARS = [" ", "  ", "\t", "\r", "\n", "\r\n", "\x00", "\x0b", "\x0c", "\x7f", "\x1f", "\x80", "\xff", "\xe9",
             "\u0100", "\u0663", "\uff11", "\u2003", "\u00a0", "\u2028", '"', "<", ">", "{", "}", "|", "\\", "^", "`",
             "#", "%", "%4", "%zz", "/", "?", ":", "@", "(", ")", ",", ";", "=", "[", "]", "H", "h", "1", "9", ".",
             "HTTP/1.1", " HTTP/1.1", "\U0001f600", "\ud800", "*", "~", "-"]


def gen_target(rng):
    r = rng.random()
    if r < 0.45:
        t = "".join("/" + pchars(rng, 0, 6) for _ in range(rng.randint(1, 4)))
        if rng.random() < 0.4:
            t += "?" + pchars(rng, 0, 8, extra=":@/?")
        return t
    if r < 0.5:
        return "*"
    host = rng.choice(["example.com", "EXAMPLE.org", "a-b.c", "127.0.0.1", "[::1]", "[2001:db8::1]", "x", "h_1"])
    if r < 0.75:
        scheme = rng.choice(["http", "https", "HTTP", "ws", "x-y+z.1"])
        t = scheme + "://" + rng.choice(["", "", "u@", "u:p@"]) + host + rng.choice(["", ":80", ":8080", ":"])
        t += "".join("/" + pchars(rng, 0, 5) for _ in range(rng.randint(0, 3)))
        if rng.random() < 0.3:
            t += "?" + pchars(rng, 0, 6, extra=":@/?")
        return t
    if r < 0.85:
        return host + ":" + str(rng.choice([80, 443, 8080, 0, 65535]))
    if r < 0.9:
        return rng.choice(["urn:example:animal:ferret:nose", "mailto:a@b.c", "x:y"])
    # deliberately outside the four forms (UNSPECIFIED)
    return rng.choice(["foo", "foo/bar", "//x/y", "?q", "http:", "/a#frag", "/a b".replace(" ", "\xa0"), "/\xe9",
                       "/\u0100", '/"x"', "/<>", "/a%", "/a%4", "/a%zz", "/[x]", "/{x}", "/\\", "/^`|",
                       "[::1", "[1.2.3.4]:80", "h:", ":80"])


def mutate(rng, s):
    k = rng.randint(1, 2)
    for _ in range(k):
        op = rng.random()
        pos = rng.randint(0, len(s))
        c = rng.choice(MUT_CHARS) if rng.random() < 0.85 else rand_char(rng)
        if op < 0.45:
            s = s[:pos] + c + s[pos:]
        elif op < 0.75 and s:
            pos = min(pos, len(s) - 1)
            s = s[:pos] + c + s[pos + 1:]
        elif op < 0.9 and s:
            pos = min(pos, len(s) - 1)
            s = s[:pos] + s[pos + 1:]
        else:
            i, j = sorted((rng.randint(0, len(s)), rng.randint(0, len(s))))
            s = s[:i] + s[j:]
    return s


# code points above U+00FF: no octet corresponds to them (MUST-REJECT wherever they stand, see the reference's docstring)
NON_OCTET_PICKS = ["\u0100", "\u0101", "\u017f", "\u0130", "\u212a", "\u0660", "\u0663", "\uff11", "\uff0f", "\uff21", "\u2003",
                   "\u2028", "\u2029", "\u3000", "\u200b", "\u2060", "\ufeff", "\u20ac", "\ufffd", "\uffff", "\ud7ff", "\ue000",
                   "\U00010000", "\U0001f600", "\U000e0020", "\U0010ffff", "\ud800", "\udfff", "\udc80", "\udcff"]


def non_octet_char(rng):
    r = rng.random()
    if r < 0.45:
        return rng.choice(NON_OCTET_PICKS)
    if r < 0.6:
        return chr(rng.randint(0x100, 0x17f))          # right above the latin-1 boundary
    if r < 0.85:
        return chr(rng.choice([rng.randint(0x100, 0xd7ff), rng.randint(0xe000, 0xffff)]))
    return chr(rng.randint(0x10000, 0x10ffff))


def inject_non_octet(rng, parts):
    """parts: the components of a start line (method, sep, target, sep, version / version, sep, code, sep, reason).
    One or two code points above U+00FF are inserted into / substituted in / appended to a chosen component (or the
    whole line's edges); every other character of the line stays as generated."""
    parts = list(parts)
    for _ in range(1 if rng.random() < 0.8 else 2):
        i = rng.randrange(len(parts))
        comp = parts[i]
        c = non_octet_char(rng)
        pos = rng.randint(0, len(comp))
        op = rng.random()
        if op < 0.6 or not comp:
            parts[i] = comp[:pos] + c + comp[pos:]
        elif op < 0.9:
            pos = min(pos, len(comp) - 1)
            parts[i] = comp[:pos] + c + comp[pos + 1:]
        else:
            parts[i] = c                                # the component is nothing but the code point
    return "".join(parts)


def gen_reqline(rng):
    r = rng.random()
    if r < 0.04:
        return rand_text(rng, 24)
    if r < 0.16:
        # an otherwise well-formed (or leniently spaced) line with a code point above U+00FF somewhere
        method = rng.choice(METHODS) if rng.random() < 0.6 else token(rng)
        version = rng.choice(["HTTP/1.1", "HTTP/1.0", "HTTP/1." + rng.choice("0123456789"), "HTTP/2.0"])
        sep1 = " " if rng.random() < 0.9 else rng.choice(["  ", "\t", "\x0b", "\r"])
        sep2 = " " if rng.random() < 0.9 else rng.choice(["  ", "\t", "\x0c"])
        parts = [method, sep1, gen_target(rng), sep2, version]
        if rng.random() < 0.7:
            parts = [parts[0], parts[1]] + [inject_non_octet(rng, [parts[2]])] + parts[3:]     # in the request-target
            return "".join(parts)
        return inject_non_octet(rng, parts)
    method = rng.choice(METHODS) if rng.random() < 0.6 else token(rng)
    version = rng.choice(["HTTP/1.1", "HTTP/1.1", "HTTP/1.0", "HTTP/1." + rng.choice("0123456789")])
    if rng.random() < 0.06:
        version = rng.choice(["HTTP/2.0", "HTTP/0.9", "HTTP/3.1", "http/1.1", "HTTP/1", "HTTP/1.10", "HTTP/11",
                              "HTTP/1.\u0661", "HTTP/\uff11.1", "HTTPS/1.1", "HTTP/1,1", "HTTP/.1", "HTTP/1.", ""])
    sep1, sep2 = " ", " "
    if rng.random() < 0.06:
        sep1 = rng.choice(["  ", "\t", "\x0b", "\x0c", "\r", "", "\u00a0", "\u2003", "\n"])
    if rng.random() < 0.06:
        sep2 = rng.choice(["  ", "\t", "\x0b", "\x0c", "\r", "", "\u00a0", "\u2003", "\n"])
    s = method + sep1 + gen_target(rng) + sep2 + version
    if rng.random() < 0.05:
        s = rng.choice([" ", "\t", "\r", "\n", "x ", "\ufeff"]) + s
    if rng.random() < 0.05:
        s = s + rng.choice([" ", "\t", "\r", "\n", "\r\n", " x", "\x00", "x"])
    if rng.random() < 0.5:
        s = mutate(rng, s)
    return s


REASONS = ["OK", "Not Found", "", "Switching Protocols", "I'm a teapot", "caf\xe9", "\xff\x80", "a\tb", " lead",
           "trail ", "200", "HTTP/1.1 200 OK", "x" * 40]


def gen_statusline(rng):
    r = rng.random()
    if r < 0.04:
        return rand_text(rng, 24)
    if r < 0.16:
        version = rng.choice(["HTTP/1.1", "HTTP/1.0", "HTTP/1." + rng.choice("0123456789"), "HTTP/2.0"])
        code = "%03d" % rng.randint(0, 999)
        reason = rng.choice(REASONS) if rng.random() < 0.6 else "".join(
            rng.choice(ASCII_PRINT + LATIN_HI + ["\t"]) for _ in range(rng.randint(0, 12)))
        sep1 = " " if rng.random() < 0.9 else rng.choice(["  ", "\t", "\r"])
        sep2 = " " if rng.random() < 0.9 else rng.choice(["  ", "\t", "\x0b"])
        parts = [version, sep1, code, sep2, reason]
        if rng.random() < 0.7:
            return "".join(parts[:4]) + inject_non_octet(rng, [reason])                        # in the reason phrase
        return inject_non_octet(rng, parts)
    version = rng.choice(["HTTP/1.1", "HTTP/1.1", "HTTP/1.0", "HTTP/1." + rng.choice("0123456789")])
    if rng.random() < 0.06:
        version = rng.choice(["HTTP/2.0", "HTTP/0.9", "http/1.1", "HTTP/1", "HTTP/1.10", "HTTP/1.\u0661",
                              "HTTP/\uff11.1", "HTTPS/1.1", "ICY", ""])
    code = "%03d" % rng.randint(0, 999) if rng.random() < 0.8 else rng.choice(
        ["200", "99", "1000", "2000", "20", "2", "", "\u0662\u0660\u0660", "\uff12\uff10\uff10", "2 0", "+20", "-20",
         "2e2", "0x1", "20\u0660", "\u00b2\u00b2\u00b2", "abc", "2.0", " 200"])
    if rng.random() < 0.75:
        reason = rng.choice(REASONS)
    else:
        reason = "".join(rng.choice(ASCII_PRINT + LATIN_HI + ["\t"]) for _ in range(rng.randint(0, 12)))
    form = rng.random()
    if form < 0.9:
        s = version + " " + code + " " + reason
    elif form < 0.95:
        s = version + " " + code  # no SP after the code (UNSPECIFIED)
    else:
        s = version + rng.choice(["  ", "\t", "", "\r"]) + code + rng.choice(["  ", "\t", "", "\x0b"]) + reason
    if rng.random() < 0.05:
        s = rng.choice([" ", "\t", "\r", "\n", "x"]) + s
    if rng.random() < 0.05:
        s = s + rng.choice(["\n", "\r\n", "\r", "\x00", "\x7f", "\x1f", "\u0100", "\u2028", "\x0c"])
    if rng.random() < 0.45:
        s = mutate(rng, s)
    return s


def run_reqline(s, ctx):
    verdict, info = sl.classify_request_line(s)
    try:
        got = httputil.parse_request_start_line(s)
        err = None
    except HTTPInputError as e:
        got, err = None, e
    except Exception as e:  # noqa: BLE001
        ctx.violation(f"reqline/raises-{type(e).__name__}",
                      "parse_request_start_line raised something other than HTTPInputError",
                      {"line": s, "error": repr(e), "class": verdict})
        return
    ctx.count("oracle_evals")
    if verdict == "accept":
        ctx.count("reqline_must_accept")
        ctx.seen("reqline_forms", info[3])
        if got is None:
            ctx.violation("reqline/valid-line-rejected",
                          "a request line in the RFC 9112 grammar was rejected",
                          {"line": s, "form": info[3], "error": repr(err)})
        elif tuple(got) != info[:3] or (got.method, got.path, got.version) != info[:3]:
            ctx.violation("reqline/wrong-parts", "accepted request line split into the wrong (method, target, version)",
                          {"line": s, "got": tuple(got), "want": info[:3]})
    elif verdict == "reject":
        ctx.count("reqline_must_reject")
        if info == sl.NON_OCTET_WHY:
            ctx.count("reqline_must_reject_non_octet")
        if got is not None:
            lenient_eol = s.endswith("\n") and sl.classify_request_line(s[:-1])[0] != "reject"
            mech = "reqline/trailing-LF-accepted" if lenient_eol else "reqline/invalid-line-accepted"
            if info == sl.NON_OCTET_WHY:
                mech = "reqline/code-point-above-U+00FF-accepted"
            ctx.violation(mech, "a request line outside every reading of the RFC 9112 grammar was accepted",
                          {"line": s, "why": info, "got": tuple(got)})
    else:
        ctx.count("reqline_unspecified_accepted" if got is not None else "reqline_unspecified_rejected")
        ctx.seen("reqline_unspec_classes", info)


def run_statusline(s, ctx):
    verdict, info = sl.classify_status_line(s)
    try:
        got = httputil.parse_response_start_line(s)
        err = None
    except HTTPInputError as e:
        got, err = None, e
    except Exception as e:  # noqa: BLE001
        ctx.violation(f"statusline/raises-{type(e).__name__}",
                      "parse_response_start_line raised something other than HTTPInputError",
                      {"line": s, "error": repr(e), "class": verdict})
        return
    ctx.count("oracle_evals")
    if verdict == "accept":
        ctx.count("status_must_accept")
        if got is None:
            ctx.violation("statusline/valid-line-rejected", "a status line in the RFC 9112 grammar was rejected",
                          {"line": s, "error": repr(err)})
        else:
            reason_ok = got.reason == info[2] or (info[2] == "" and got.reason is None)
            if got.version != info[0] or got.code != info[1] or type(got.code) is not int or not reason_ok:
                ctx.violation("statusline/wrong-parts", "accepted status line split into the wrong (version, code, reason)",
                              {"line": s, "got": tuple(got), "want": info})
    elif verdict == "reject":
        ctx.count("status_must_reject")
        if info == sl.NON_OCTET_WHY:
            ctx.count("status_must_reject_non_octet")
        if got is not None:
            ctx.violation("statusline/code-point-above-U+00FF-accepted" if info == sl.NON_OCTET_WHY
                          else "statusline/invalid-line-accepted",
                          "a status line outside every reading of the RFC 9112 grammar was accepted",
                          {"line": s, "why": info, "got": tuple(got)})
    else:
        ctx.count("status_unspecified_accepted" if got is not None else "status_unspecified_rejected")


# ---------------------------------------------------------------------------------------------
# totality

CHARSETS = ["utf-8", "UTF-8", "latin-1", "iso-8859-1", "us-ascii", "bogus", "", "idna", "punycode", "undefined",
            "hex", "base64", "rot13", "zlib", "unicode_escape", "raw_unicode_escape", "utf-7", "utf-16", "utf-32",
            "cp65001", "mbcs", "oem", "utf\x00-8", "utf-8\x00", "\u0100", "ut\xe9f", "utf 8", "string-escape",
            "unicode_internal", "uu", "quopri", "bz2", "tactis", "x" * 300, "ascii'", "'", "utf-8;"]
try:
    import encodings.aliases as _al
    import pkgutil as _pk
    import encodings as _enc
    CHARSETS += sorted(set(_al.aliases.values()) | {m.name for m in _pk.iter_modules(_enc.__path__)})
except Exception:  # pragma: no cover
    pass
STORM = list("\"\"\"\\\\;;;==  '*%,:/\t") + ["a", "b", "0", "9", "\n", "\r", "\x00", "\xe9", "\u0100"]
DIGIT_RUNS = [1, 2, 5, 6, 20, 100, 640, 4299, 4300, 4301, 5000, 10000]


def gen_totality(rng):
    r = rng.random()
    if r < 0.25:
        return rand_text(rng, 24)
    if r < 0.45:
        return "".join(rng.choice(STORM) for _ in range(rng.randint(0, 40)))
    if r < 0.70:
        # RFC 2231 / 5987 parameter forms
        key = rng.choice(["form-data", "attachment", "text/plain", "", "a"])
        parts = [key]
        for _ in range(rng.randint(1, 3)):
            name = rng.choice(["x", "name", "filename", "FileName", "a b", ""])
            star = rng.choice(["*", "*", "*0*", "*1*", "*0", "*1", "*2*", "**", "*-1", "*01", "*99999999999999999999",
                               "*\u0661", "*a", "* ", ""])
            cs = rng.choice(CHARSETS)
            lang = rng.choice(["", "", "en", "en'", "\u0100", "''"])
            val = rng.choice(["abc", "%FF", "%C3%A9", "%zz", "%", "%0", "xn--%FF", "+AGE-", "%ED%A0%80", "%00",
                              "\"q\"", "\"q", "a" * 70 + ".com", "\ud800", rand_text(rng, 8), "%5Cu12", "%5CN%7Bx",
                              "..", "\xe9", "\U0001f600"])
            form = rng.random()
            if form < 0.7:
                parts.append(f"{name}{star}={cs}'{lang}'{val}")
            elif form < 0.8:
                parts.append(f"{name}{star}=\"{cs}'{lang}'{val}\"")
            elif form < 0.9:
                parts.append(f"{name}{star}={val}")
            else:
                parts.append(f"{name}{star}={cs}'{val}")
        return rng.choice(["; ", ";", " ;  "]).join(parts)
    if r < 0.85:
        host = rng.choice(["example.com", "", "[::1]", "h", "a:b", "\u0100", "x\n", "[", ":", "::", "h:1"])
        kind = rng.random()
        if kind < 0.5:
            d = rng.choice("0123456789") * rng.choice(DIGIT_RUNS)
        elif kind < 0.7:
            d = "".join(rng.choice("0123456789") for _ in range(rng.choice(DIGIT_RUNS)))
        elif kind < 0.85:
            d = "".join(rng.choice(["\u0660", "\u0669", "\uff11", "\u0967", "1", "\u00b2", "\u2460", "\u0be7",
                                    "\U0001d7ce", "\u19da"]) for _ in range(rng.randint(1, 6)))
        else:
            d = rng.choice(["", " 80", "80 ", "+80", "-80", "8_0", "0x50", "80\n", "\n80", "80\x00", "1e3"])
        return host + ":" + d
    # cookie-like
    items = []
    for _ in range(rng.randint(0, 4)):
        n = rng.choice(["a", "", "sid", "a b", "\u0100", "="])
        v = rng.choice(["1", "", "\"x\"", "\"a\\\"b\"", "\"\\012\"", "\"\\377\"", "\"\\400\"", "\"\\\"", "\"",
                        "\"\\", "\"\\0\"", "\"\\01\"", "\"\\1234\"", "\"\\\ud800\"", rand_text(rng, 6)])
        items.append(rng.choice([f"{n}={v}", f"{n} = {v}", v, f"{n}="]))
    return rng.choice(["; ", ";", ";;"]).join(items)


TOTAL_FUNCS = [
    ("_parse_header", lambda s: httputil._parse_header(s)),
    ("parse_cookie", lambda s: httputil.parse_cookie(s)),
    ("_unquote_cookie", lambda s: httputil._unquote_cookie(s)),
    ("split_host_and_port", lambda s: httputil.split_host_and_port(s)),
]


def _totality_mechanism(name, e, tb):
    if name == "_parse_header" and ("collapse_rfc2231_value" in tb or "decode_params" in tb):
        # one root cause: RFC 2231 decoding is delegated to email.utils, whose errors on malformed
        # extended parameters (undecodable charset, `x*` mixed with `x*0`) are not contained
        return "totality/_parse_header/rfc2231-decoding-raises"
    if name == "split_host_and_port" and isinstance(e, ValueError) and "limit" in str(e):
        return "totality/split_host_and_port/int-digit-limit"
    return f"totality/{name}/raises-{type(e).__name__}"


def run_totality(s, ctx):
    for name, f in TOTAL_FUNCS:
        ctx.count("totality_calls")
        ctx.count("oracle_evals")
        try:
            res = f(s)
        except Exception as e:  # noqa: BLE001
            tb = traceback.format_exc()
            ctx.violation(_totality_mechanism(name, e, tb), f"{name} raised for a str input (the statement says it never raises)",
                          {"input": s, "len": len(s), "error": repr(e)[:300], "where": tb[-700:]})
            continue
        # cheap shape checks (types only; values are not pinned by the statement)
        if name == "_parse_header":
            ok = isinstance(res, tuple) and len(res) == 2 and isinstance(res[0], str) and isinstance(res[1], dict)
        elif name == "parse_cookie":
            ok = isinstance(res, dict)
        elif name == "_unquote_cookie":
            ok = isinstance(res, str)
        else:
            ok = isinstance(res, tuple) and len(res) == 2 and isinstance(res[0], str) and (
                res[1] is None or type(res[1]) is int)
        if not ok:
            ctx.violation(f"totality/{name}/wrong-result-type", f"{name} returned a value of the wrong shape",
                          {"input": s, "result": repr(res)[:300]})


# ---------------------------------------------------------------------------------------------
# _encode_header / _parse_header round trip

NAME_CHARS = [c for c in TCHARS if c != "*" and not c.isupper()]


def gen_header_rt(rng):
    key = token(rng, 1, 10)
    if rng.random() < 0.5:
        key += "/" + token(rng, 1, 10)
    names = set()
    for _ in range(rng.randint(0, 5)):
        names.add(token(rng, 1, 8, NAME_CHARS))
    pdict = {}
    for n in sorted(names):
        pdict[n] = token(rng, 1, 10) if rng.random() < 0.9 else None
    return (key, pdict)


def run_header_rt(case, ctx):
    key, pdict = case
    ctx.count("header_rt_evals")
    ctx.count("oracle_evals")
    try:
        enc = httputil._encode_header(key, dict(pdict))
        got = httputil._parse_header(enc)
    except Exception as e:  # noqa: BLE001
        ctx.violation(f"header_rt/raises-{type(e).__name__}", "_encode_header/_parse_header raised on token-valued parameters",
                      {"key": key, "params": pdict, "error": repr(e)})
        return
    valued = {k: v for k, v in pdict.items() if v is not None}
    flags = [k for k, v in pdict.items() if v is None]
    if flags:
        # valueless flags are outside the statement ("token-valued"): observe only
        ctx.count("header_rt_flag_kept" if all(f in got[1] for f in flags) else "header_rt_flag_dropped_unspecified")
    got_valued = {k: v for k, v in got[1].items() if k not in flags}
    if got[0] != key or got_valued != valued:
        ctx.violation("header_rt/mismatch", "_parse_header(_encode_header(key, params)) lost or changed a token-valued parameter",
                      {"key": key, "params": pdict, "encoded": enc, "got": got})


# ---------------------------------------------------------------------------------------------
# format_timestamp

MAXT = 253370764799  # 9998-12-31T23:59:59Z
_DAYS = ["Mon", "Tue", "Wed", "Thu", "Fri", "Sat", "Sun"]
_MONTHS = ["Jan", "Feb", "Mar", "Apr", "May", "Jun", "Jul", "Aug", "Sep", "Oct", "Nov", "Dec"]
IMF_RE = re.compile(r"(Mon|Tue|Wed|Thu|Fri|Sat|Sun), ([0-9]{2}) (Jan|Feb|Mar|Apr|May|Jun|Jul|Aug|Sep|Oct|Nov|Dec) "
                    r"([0-9]{4}) ([0-9]{2}):([0-9]{2}):([0-9]{2}) GMT")


def days_from_civil(y, m, d):
    y -= m <= 2
    era = (y if y >= 0 else y - 399) // 400
    yoe = y - era * 400
    doy = (153 * (m + (-3 if m > 2 else 9)) + 2) // 5 + d - 1
    doe = yoe * 365 + yoe // 4 - yoe // 100 + doy
    return era * 146097 + doe - 719468


def read_imf_fixdate(s):
    m = IMF_RE.fullmatch(s)
    if not m:
        return None
    dn, d, mon, y, hh, mm, ss = m.groups()
    d, y, hh, mm, ss = int(d), int(y), int(hh), int(mm), int(ss)
    mo = _MONTHS.index(mon) + 1
    if not (1 <= d <= 31 and hh < 24 and mm < 60 and ss < 60):
        return None
    days = days_from_civil(y, mo, d)
    if _DAYS[(days + 3) % 7] != dn:
        return None
    return days * 86400 + hh * 3600 + mm * 60 + ss


BOUNDARY_T = [0, 1, 59, 60, 86399, 86400, 951782400, 951868800, 2 ** 31 - 1, 2 ** 31, 2 ** 32, 4102444800,
              MAXT, MAXT - 1, 1359312200, 68169599, 68169600]


HIST_DELTAS = [0.0, 0.0009765625, 0.25, 0.5, 0.75, 0.9990234375, 1.0, 1.25, 1.5, 2.0]


def gen_timestamp_history(rng):
    """A HISTORY of format_timestamp calls whose instants lie close together (same second, adjacent seconds, either
    side of a whole-second boundary, ascending / descending / repeated), in mixed argument types. Every call is judged
    on its own: whatever an earlier call left behind (a memo, a cache) must not change a later result."""
    r = rng.random()
    if r < 0.15:
        t0 = rng.choice(BOUNDARY_T)
    elif r < 0.8:
        t0 = rng.randint(2, 2 ** 32)
    else:
        t0 = rng.randint(2, MAXT - 8)
    t0 = min(max(t0, 2), MAXT - 8)
    # position inside the second from which the walk starts
    x = Fraction(t0) + Fraction(rng.choice([0, 0, 1, 256, 512, 717, 768, 1000, 1023, rng.randrange(1024)]), 1024)
    steps = []
    direction = rng.choice([1, 1, 1, -1, 0])
    for _ in range(rng.randint(2, 6)):
        kind = rng.choice(["float", "float", "float", "int", "naive", "aware", "struct", "tuple"])
        sec = int(x // 1)
        if kind == "float":
            steps.append(("float", float(x)))       # x has <= 10 fractional bits: exact in a double below 2**42
        elif kind in ("naive", "aware"):
            us = int((x - sec) * 1000000)
            off = rng.choice([0, 60, -300, 330, 840, -720]) if kind == "aware" else None
            steps.append((kind, sec, us, off))
        else:
            steps.append((kind, sec))
        d = Fraction(rng.choice(HIST_DELTAS + [rng.randrange(2048) / 1024.0]))
        sign = direction if direction else rng.choice([1, -1])
        x = x + sign * d
        if x < 1 or x > MAXT - 2:
            x = Fraction(t0)
    return ("hist", t0, tuple(steps))


def gen_timestamp(rng):
    if rng.random() < 0.25:
        return gen_timestamp_history(rng)
    r = rng.random()
    if r < 0.1:
        t = rng.choice(BOUNDARY_T)
    elif r < 0.5:
        t = rng.randint(0, 2 ** 32)
    else:
        t = rng.randint(0, MAXT)
    kind = rng.choice(["int", "float", "float", "struct", "tuple", "naive", "aware"])
    if kind == "float":
        frac = rng.choice([0.0, 0.25, 0.5, 0.75, 0.999, rng.random(), 0.9999999])
        return ("float", float(t) + frac if t < 2 ** 40 else float(t))
    if kind in ("naive", "aware"):
        us = rng.choice([0, 0, 1, 500000, 999999])
        off = rng.choice([0, 0, 60, -300, 330, 840, -720, 1439, -1439]) if kind == "aware" else None
        return (kind, t, us, off)
    return (kind, t)


_EPOCH = datetime.datetime(1970, 1, 1, tzinfo=datetime.timezone.utc)


def run_timestamp(case, ctx):
    if case[0] == "hist":
        ctx.count("timestamp_histories")
        prev = None
        for i, step in enumerate(case[2]):
            if prev is not None:
                a, b = _step_instant(prev), _step_instant(step)
                if a // 1 != b // 1 and abs(a - b) < 1:
                    ctx.count("timestamp_hist_straddle_lt_1s")
                elif a // 1 == b // 1:
                    ctx.count("timestamp_hist_same_second")
            prev = step
            if not run_timestamp_one(step, ctx, i, case):
                return
        return
    run_timestamp_one(case, ctx, 0, None)


def _step_instant(step):
    if step[0] == "float":
        return Fraction(step[1])
    if step[0] in ("naive", "aware"):
        return Fraction(step[1]) + Fraction(step[2], 1000000)
    return Fraction(step[1])


def run_timestamp_one(case, ctx, pos, hist):
    """Judge one format_timestamp call; pos > 0 = a later call of a history (same oracle, own mechanism keys).
    Returns False after a violation."""
    kind = case[0]
    sfx = "-after-earlier-calls" if pos else ""
    allowed = None
    if kind == "int":
        arg, want = case[1], case[1]
    elif kind == "float":
        arg = case[1]
        fr = Fraction(arg)
        want = fr.numerator // fr.denominator
        allowed = {want}
        if fr - want > Fraction(999999, 1000000):  # formatdate goes through microsecond rounding
            allowed.add(want + 1)
    elif kind == "struct":
        arg, want = time.gmtime(case[1]), case[1]
    elif kind == "tuple":
        arg, want = tuple(time.gmtime(case[1])), case[1]
    elif kind == "naive":
        arg = datetime.datetime(1970, 1, 1) + datetime.timedelta(seconds=case[1], microseconds=case[2])
        want = case[1]
    else:
        tz = datetime.timezone(datetime.timedelta(minutes=case[3]))
        arg = (_EPOCH + datetime.timedelta(seconds=case[1], microseconds=case[2])).astimezone(tz)
        want = case[1]
    allowed = allowed or {want}
    ctx.count("timestamp_evals")
    ctx.count("oracle_evals")
    try:
        out = httputil.format_timestamp(arg)
    except Exception as e:  # noqa: BLE001
        ctx.violation(f"timestamp/raises-{type(e).__name__}{sfx}", "format_timestamp raised for a timestamp in 1970..9998",
                      {"case": case, "arg": repr(arg), "error": repr(e), "history": hist, "pos": pos})
        return False
    got = read_imf_fixdate(out) if isinstance(out, str) else None
    if got is None:
        ctx.violation("timestamp/not-imf-fixdate" + sfx, "format_timestamp did not produce an IMF-fixdate (RFC 9110 §5.6.7)",
                      {"case": case, "out": out, "history": hist, "pos": pos})
        return False
    if got not in allowed:
        ctx.violation("timestamp/reads-back-as-another-instant" + sfx, "formatted timestamp does not read back as the instant given",
                      {"case": case, "arg": repr(arg), "out": out, "got": got, "want": sorted(allowed), "history": hist, "pos": pos})
        return False
    try:
        back = email.utils.parsedate_to_datetime(out)
        ok = back.tzinfo is not None and int((back - _EPOCH).total_seconds()) == got
    except Exception:  # noqa: BLE001
        ok = False
    if not ok:
        ctx.violation("timestamp/stdlib-parser-disagrees" + sfx, "email.utils.parsedate_to_datetime does not read the timestamp back",
                      {"case": case, "out": out, "history": hist, "pos": pos})
        return False
    return True


# ---------------------------------------------------------------------------------------------
# url_concat

URI_RE = re.compile(r"^(([^:/?#]+):)?(//([^/?#]*))?([^?#]*)(\?([^#]*))?(#(.*))?$", re.S)
_PCT_RE = re.compile(rb"%([0-9A-Fa-f]{2})")


def split_uri(u):
    m = URI_RE.match(u)
    return {"scheme": (m.group(2) or "").lower(), "authority": m.group(4) or "", "path": m.group(5) or "",
            "query": m.group(7) or "", "fragment": m.group(9) or ""}


def form_decode(q):
    out = []
    for piece in q.split("&"):
        if not piece:
            continue
        n, _, v = piece.partition("=")

        def dec(x):
            b = x.replace("+", " ").encode("utf-8")
            b = _PCT_RE.sub(lambda m: bytes([int(m.group(1), 16)]), b)
            return b.decode("utf-8")
        out.append((dec(n), dec(v)))
    return out


QNAMES = ["a", "b", "q", "x y", "k[]", "\xe9", "a.b", "A", "", "n-1", "\u4e2d"]
QVALS = ["1", "", "v w", "a+b", "50%", "&", "=", "a=b", "\xe9", "\U0001f600", "/?#", "x;y", "~", "%41", " ", "%"]


def render_pair(rng, n, v):
    def enc(x):
        out = []
        for ch in x:
            r = rng.random()
            if ch == " ":
                out.append("+" if r < 0.5 else "%20")
            elif ch in "&=#+%;" or (ch in "/?" and r < 0.5) or ord(ch) < 0x21:
                out.append("".join("%%%02X" % b for b in ch.encode("utf-8")))
            elif ord(ch) > 0x7e:
                out.append(ch if r < 0.3 else "".join(("%%%02X" if r < 0.65 else "%%%02x") % b for b in ch.encode("utf-8")))
            elif r < 0.1:
                out.append("%%%02X" % ord(ch))
            else:
                out.append(ch)
        return "".join(out)
    if v == "" and rng.random() < 0.4:
        return enc(n)          # "a" without "="
    return enc(n) + "=" + enc(v)


def gen_url_concat(rng):
    scheme = rng.choice(["http", "https", "HTTP", "ftp", "x-y+z", "", ""])
    auth = rng.choice(["example.com", "example.com:8080", "u@h", "u:p@h:1", "[::1]", "[::1]:8080", "H.Example", "h"])
    if scheme == "":
        base = rng.choice(["", "//" + auth])
    else:
        base = scheme + "://" + auth
    path = "".join("/" + pchars(rng, 0, 5) for _ in range(rng.randint(0, 3)))
    if rng.random() < 0.1 and path:
        path += ";" + pchars(rng, 1, 4, extra="=")  # an empty ";" is normalised away: not pinned
    if base == "" and path == "" and rng.random() < 0.5:
        path = rng.choice(["rel", "rel/x", "."])
    url = base + path
    pairs = []
    if rng.random() < 0.7:
        pairs = [(rng.choice(QNAMES), rng.choice(QVALS)) for _ in range(rng.randint(0, 4))]
        pieces = [render_pair(rng, n, v) for n, v in pairs]
        # stray separators and lone-invalid escapes that decode to themselves
        if rng.random() < 0.2:
            pieces.insert(rng.randint(0, len(pieces)), "")
        if rng.random() < 0.1:
            pieces.append("z=%zz%4")
        url += "?" + "&".join(pieces)
    if rng.random() < 0.4:
        url += "#" + rng.choice(["", "frag", "a/b?c=d", "x=1&y=2", "\xe9", "%41", "!"])
    nargs = rng.randint(0, 3)
    arglist = [(rng.choice(QNAMES + ["c", "d"]), rng.choice(QVALS + [rand_text(rng, 5, surrogates=False)]))
               for _ in range(nargs)]
    form = rng.choice(["dict", "list", "tuple", "none"])
    if form == "dict":
        arglist = list(dict(arglist).items())
    if form == "none":
        arglist = []
    return (url, form, arglist)


def run_url_concat(case, ctx):
    url, form, arglist = case
    args = {"dict": dict(arglist), "list": list(arglist), "tuple": tuple(arglist), "none": None}[form]
    ctx.count("url_concat_evals")
    ctx.count("oracle_evals")
    try:
        out = httputil.url_concat(url, args)
    except Exception as e:  # noqa: BLE001
        ctx.violation(f"url_concat/raises-{type(e).__name__}", "url_concat raised for a well-formed url and str pairs",
                      {"url": url, "form": form, "args": arglist, "error": repr(e)})
        return
    a, b = split_uri(url), split_uri(out)
    for comp in ("scheme", "authority", "path", "fragment"):
        if comp == "path" and a["path"].endswith(";") and b["path"] == a["path"][:-1]:
            # an empty ";params" suffix of the last segment is normalised away by urlparse: not pinned
            ctx.count("url_concat_unspecified_empty_params_dropped")
            continue
        if a[comp] != b[comp]:
            ctx.violation(f"url_concat/{comp}-changed", f"url_concat changed the {comp} of the url",
                          {"url": url, "args": arglist, "out": out, "before": a[comp], "after": b[comp]})
            return
    try:
        want = form_decode(a["query"]) + [(k, v) for k, v in arglist]
        got = form_decode(b["query"])
    except UnicodeDecodeError:
        ctx.count("url_concat_unspecified_non_utf8")
        return
    if got != want:
        old_n = len(form_decode(a["query"]))
        mech = "url_concat/existing-pairs-changed" if got[:old_n] != want[:old_n] else "url_concat/args-not-appended"
        ctx.violation(mech, "query pairs of the result are not the old pairs followed by the arguments",
                      {"url": url, "form": form, "args": arglist, "out": out, "got": got, "want": want})


# ---------------------------------------------------------------------------------------------
# re_unescape

def gen_re_unescape(rng):
    r = rng.random()
    if r < 0.3:
        return "".join(chr(rng.randint(0, 0x7f)) for _ in range(rng.randint(0, 12)))
    if r < 0.5:
        return "".join(rng.choice(list("\\.^$*+?{}[]|()-# \t\n\r\x0b\x0c&~_/aZ09\x00")) for _ in range(rng.randint(0, 12)))
    return rand_text(rng, 12)


def run_re_unescape(s, ctx):
    ctx.count("re_unescape_evals")
    ctx.count("oracle_evals")
    esc = re.escape(s)
    try:
        got = re_unescape(esc)
    except Exception as e:  # noqa: BLE001
        ctx.violation(f"re_unescape/raises-{type(e).__name__}", "re_unescape raised on the output of re.escape",
                      {"s": s, "escaped": esc, "error": repr(e)})
        return
    if got != s:
        ctx.violation("re_unescape/not-inverse", "re_unescape(re.escape(s)) != s", {"s": s, "escaped": esc, "got": got})


# ---------------------------------------------------------------------------------------------
# is_valid_ip

LABEL_CH = "abcdefghijklmnopqrstuvwxyz0123456789"


def gen_is_valid_ip(rng):
    r = rng.random()
    if r < 0.2:
        v = rng.choice([0, 1, 0x7f000001, 0xffffffff, 0x0a000001, rng.getrandbits(32)])
        return ("accept", str(ipaddress.IPv4Address(v)))
    if r < 0.5:
        kind = rng.random()
        if kind < 0.3:
            v = rng.getrandbits(128)
        elif kind < 0.6:  # runs of zero groups so that '::' compression appears in every position
            groups = [rng.choice([0, 0, rng.getrandbits(16), 1, 0xffff]) for _ in range(8)]
            v = 0
            for g in groups:
                v = (v << 16) | g
        else:
            v = rng.choice([0, 1, (0xffff << 32) | rng.getrandbits(32), 0xfe80 << 112 | 1, 2 ** 128 - 1,
                            0x20010db8 << 96, 0x64ff9b << 96 | rng.getrandbits(32)])
        a = ipaddress.IPv6Address(v)
        form = rng.choice(["compressed", "exploded", "upper", "mixed"])
        if form == "compressed":
            s = a.compressed
        elif form == "exploded":
            s = a.exploded
        elif form == "upper":
            s = a.compressed.upper()
        else:
            hi = a.exploded.split(":")[:6]
            s = ":".join(hi) + ":" + str(ipaddress.IPv4Address(v & 0xffffffff))
            if v >> 32 == 0xffff:
                s = "::ffff:" + str(ipaddress.IPv4Address(v & 0xffffffff))
        return ("accept", s)
    if r < 0.75:
        # host names: at least one label with a letter g-z, only LDH characters, no ':' or '%'
        labels = []
        for _ in range(rng.randint(1, 4)):
            lab = "".join(rng.choice(LABEL_CH) for _ in range(rng.randint(1, 10)))
            if rng.random() < 0.3:
                lab = lab[:1] + "-" + lab[1:] + "x"
            labels.append(lab)
        labels[rng.randrange(len(labels))] += rng.choice("ghijklmnopqrstuvwxyz")
        if rng.random() < 0.1:
            labels[0] = "g" * rng.choice([63, 64, 65, 100])       # idna length limit => UnicodeError path
        if rng.random() < 0.05:
            labels = ["h" * 60] * 5                                  # > 255 octets
        if rng.random() < 0.05:
            labels.insert(1, "")                                     # empty label
        if rng.random() < 0.05:
            labels[0] = rng.choice(["b\xfccher", "\u4e2d\u6587", "xn--zz--", "\u0130stanbul"])
        name = ".".join(labels)
        if rng.random() < 0.1:
            name = name.upper()
        return ("reject", name)
    if r < 0.78:
        return ("reject", "")
    if r < 0.9:
        base = rng.choice(["127.0.0.1", "::1", "localhost", "", "1.2.3.4", "fe80::1", "a"])
        pos = rng.randint(0, len(base))
        return ("reject", base[:pos] + "\x00" + base[pos:] + rng.choice(["", ".example.com", "\x00"]))
    return ("unspec", rng.choice(["1", "127.1", "0x7f.0.0.1", "010.0.0.1", "1.2.3.4 ", " 1.2.3.4", "fe80::1%eth0",
                                  "fe80::1%1", "[::1]", "1.2.3.4:80", "::1/128", "1.2.3.4.5", "256.1.1.1", "1.2.3",
                                  ":::", "1::2::3", "12345::1", "::ffff:1.2.3", "abc", "::g", "1.2.3.4\n",
                                  "\u0661.2.3.4", "\uff11.2.3.4", "1.2.3.4%", "::%", "0", "4294967295", "1.2.3.-4",
                                  rand_text(rng, 8)]))


def run_is_valid_ip(case, ctx):
    label, s = case
    if label == "unspec" and ("\x00" in s or s == ""):
        label = "reject"
    ctx.count("oracle_evals")
    try:
        got = is_valid_ip(s)
    except Exception as e:  # noqa: BLE001
        if label == "unspec":
            ctx.count("ip_unspecified_raised")
            return
        ctx.violation(f"is_valid_ip/raises-{type(e).__name__}-on-{label}",
                      "is_valid_ip raised instead of answering", {"input": s, "class": label, "error": repr(e)})
        return
    if label == "accept":
        ctx.count("ip_must_accept")
        if got is not True:
            ctx.violation("is_valid_ip/plain-address-rejected", "a plain IPv4/IPv6 address was not accepted",
                          {"input": s, "got": got})
    elif label == "reject":
        ctx.count("ip_must_reject")
        if got is not False:
            kind = "empty" if s == "" else "NUL" if "\x00" in s else "hostname"
            ctx.violation(f"is_valid_ip/{kind}-accepted", "a host name / empty string / string with NUL was accepted",
                          {"input": s, "got": got})
    else:
        ctx.count("ip_unspecified_accepted" if got else "ip_unspecified_rejected")


# ---------------------------------------------------------------------------------------------

GENS = {"reqline": gen_reqline, "statusline": gen_statusline, "totality": gen_totality, "header_rt": gen_header_rt,
        "timestamp": gen_timestamp, "url_concat": gen_url_concat, "re_unescape": gen_re_unescape,
        "is_valid_ip": gen_is_valid_ip}
RUNNERS = {"reqline": run_reqline, "statusline": run_statusline, "totality": run_totality, "header_rt": run_header_rt,
           "timestamp": run_timestamp, "url_concat": run_url_concat, "re_unescape": run_re_unescape,
           "is_valid_ip": run_is_valid_ip}


class _SafeCtx:
    """Forwards to the shard Ctx, sanitising witnesses/samples (see wrap())."""

    def __init__(self, ctx):
        self._c = ctx

    def __getattr__(self, name):
        return getattr(self._c, name)

    def violation(self, mechanism, what, witness=None, case=None):
        return self._c.violation(mechanism, what, safe(witness), case)

    def sample(self, obj, limit=4):
        return self._c.sample(safe(obj), limit)


def run_case(case, ctx):
    ctx = _SafeCtx(ctx)
    kind, payload = case
    payload = unwrap(payload)
    canon = (kind, payload if not isinstance(payload, str) or len(payload) < 200 else (len(payload), core.h64(payload)))
    trivial = payload == "" or payload == ("accept", "") or payload is None
    new = ctx.mark(canon, not trivial)
    if new:
        ctx.count("cases_" + kind)
    if len(ctx.samples) < 4 and new and ctx.evaluations % 997 == 3:
        ctx.sample({"sub": kind, "input": payload})
    RUNNERS[kind](payload, ctx)
