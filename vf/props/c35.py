"""C35 — Queue / LifoQueue / PriorityQueue conserve items and match their ordering discipline.

History + executable model on the virtual-time loop: put / put_nowait / get /
get_nowait / async-for step / task_done / join (with and without deadlines),
cancellation of any pending future and clock advances are applied to the real
queue and to a sequential model with unique item ids; after every step the outcome
vector of all put/get/join futures (incl. the item each get returned), the return
values / exceptions of the *_nowait calls and task_done, and qsize/empty/full are
compared.  Conservation (every accepted item returned exactly once or still
queued) follows from equality with the model and is re-checked at the end by
draining the queue.  Besides the bounded exhaustive and the short random histories there are long "burst" histories
in which many (up to ~270) getters or putters are blocked on one queue at the same time, part of them with deadlines
or cancelled, and are then served while new ones arrive (arrival order of service over wide waiter sets).
"""
from __future__ import annotations

import asyncio
import gc

from vf import core, vloop
from vf.logmon import LogMon
from vf.refs import synchist as sh

core.use_repo()
from tornado import queues  # noqa: E402

PROP = "C35"
META = {
    "level": "exploration",
    "technique": "reference-model monitor over queue operation histories on a virtual-time loop (exhaustive small scope "
                 "per class and maxsize 0..3 + seeded random long histories), all futures and size observables compared at "
                 "every settle point, final drain for conservation",
    "level_text": "Every history (exhaustive to a bounded length for each of Queue/LifoQueue/PriorityQueue x maxsize 0..3, "
                  "plus random histories, incl. long ones with up to ~270 waiters blocked at once) is executed on the real queue under virtual time and on a sequential model "
                  "with unique item ids; states and values of all put/get/join futures, *_nowait results, task_done "
                  "errors and qsize/empty/full are compared after every step; at the end the queue is drained and the "
                  "multiset of items is compared (conservation).",
    "level_note": "Trusts the sequential model in this file and the virtual loop; half-grid deadlines. For LIFO/priority "
                  "queues a get that is served while a putter is blocked may legally see the blocked item either as already "
                  "queued (Tornado) or not yet (asyncio.Queue); both are accepted and counted.",
    "design_ref": "DESIGN.md §4 C35",
    "engine": "vloop",
}
RULE = ("cases are (class, maxsize, op history, settle pattern); ops: put(item, None|timedelta|absolute|0), put_nowait, "
        "get(None|...), get_nowait, async-for step, task_done, join(None|...), cancel(any pending future), advance; items "
        "are unique ids (priority queue: (priority, id)); exhaustive by model-guided DFS plus seeded random histories; "
        "burst histories: phases of 3..270 simultaneously blocked getters/putters (share with deadlines, cancels, advances) then "
        "a serving phase interleaved with new arrivals; "
        "non-trivial = at least one operation blocked and at least one item was delivered to a get; distinct by case tuple")
FLOORS = {"quick": 15000, "thorough": 200000}
ASSUMPTIONS = ["sequential queue model is correct", "single-threaded use on one loop",
               "a deadline never coincides with another operation (half-grid deadlines)",
               "LIFO/priority get racing a blocked putter: either serialisation accepted"]
REQUIRED_COUNTERS = ["oracle_evals", "blocked_get_served", "blocked_put_served", "timeouts_seen", "cancels_of_pending",
                     "queue_full_raises", "queue_empty_raises", "task_done_over_raises", "join_completed_by_task_done",
                     "drain_evals", "histories_peak_blocked_getters_33_64", "histories_peak_blocked_getters_65_128",
                     "histories_peak_blocked_getters_over_128", "histories_peak_blocked_putters_33_64",
                     "histories_peak_blocked_putters_65_128", "histories_peak_blocked_putters_over_128"]

KINDS = ["fifo", "lifo", "prio"]
CONFIGS = [(k, ms) for k in KINDS for ms in (0, 1, 2, 3)]
RAND_TMS = [None, None, ("rel", 0), ("rel", 1), ("abs", 0), ("abs", 1), ("zero",), ("tdzero",), ("past",)]
EXH_FULL_LEN = {"quick": 3, "thorough": 4}
EXH_RED_LEN = {"quick": 4, "thorough": 5}


def EXHAUSTIVE(tier):
    return ("for each of Queue/LifoQueue/PriorityQueue x maxsize 0..3: all histories of length %d over {put(None|timedelta "
            "0.5|0), put_nowait, get(None|timedelta 0.5|0), get_nowait, task_done, join(None|timedelta 0.5), cancel(any "
            "pending), advance} (priority queue: two priorities), and of length %d over the reduced alphabet {put(None), "
            "put(timedelta), get(None), get(timedelta), get_nowait, task_done, join(None), cancel, advance}; every prefix "
            "checked; the reduced alphabet also at length %d with no settle between ops"
            % (EXH_FULL_LEN[tier], EXH_RED_LEN[tier], EXH_RED_LEN[tier] - 1))


# --------------------------------------------------------------------------
# model

class QModel:
    def __init__(self, kind, maxsize):
        self.kind, self.maxsize, self.G = kind, maxsize, 0
        self.items = []
        self.F = []            # [kind, exp, state, item]; state: "P" | ("R", value) | "T" | "C"
        self.unfinished = 0
        self.nput = 0
        self.stats = {"bg": 0, "bp": 0, "jd": 0, "blocked": 0, "delivered": 0}

    def clone(self):
        m = QModel(self.kind, self.maxsize)
        m.G, m.items, m.unfinished, m.nput = self.G, list(self.items), self.unfinished, self.nput
        m.F = [list(x) for x in self.F]
        m.stats = dict(self.stats)
        return m

    def exp_of(self, tm):
        if tm is None:
            return None
        return self.G if tm[0] in sh.ZERO_FORMS else self.G + tm[1] + 1

    def item(self, p):
        self.nput += 1
        return (p, self.nput) if self.kind == "prio" else self.nput

    def full(self):
        return self.maxsize > 0 and len(self.items) >= self.maxsize

    def _take(self, items):
        if self.kind == "fifo":
            return items.pop(0)
        if self.kind == "lifo":
            return items.pop()
        i = items.index(min(items))
        return items.pop(i)

    def _first(self, kind):
        for x in self.F:
            if x[0] == kind and x[2] == "P":
                return x
        return None

    def put_nowait(self, item):
        g = self._first("get")
        if g is not None:
            g[2] = ("R", item)
            self.unfinished += 1
            self.stats["bg"] += 1
            self.stats["delivered"] += 1
            return True
        if self.full():
            return False
        self.items.append(item)
        self.unfinished += 1
        return True

    def put(self, item, tm):
        if self.put_nowait(item):
            self.F.append(["put", None, ("R", None), item])
        else:
            self.stats["blocked"] += 1
            self.F.append(["put", self.exp_of(tm), "P", item])

    def get_candidates(self):
        """Items a get issued now may return: [primary] or [primary, alternative]; [] if it must block."""
        p = self._first("put")
        if p is not None:
            a = list(self.items) + [p[3]]
            prim = self._take(a)
            b = list(self.items)
            alt = self._take(b) if b else prim
            return [prim] if alt == prim else [prim, alt]
        if self.items:
            return [self._take(list(self.items))]
        return []

    def get_nowait(self, prefer=None):
        """Returns (ok, item). `prefer` selects among the legal candidates (see META.level_note)."""
        cands = self.get_candidates()
        if not cands:
            return False, None
        item = prefer if prefer in cands else cands[0]
        p = self._first("put")
        if p is not None:
            self.items.append(p[3])
            p[2] = ("R", None)
            self.unfinished += 1
            self.stats["bp"] += 1
        self.items.remove(item)
        self.stats["delivered"] += 1
        return True, item

    def get(self, tm, prefer=None):
        ok, item = self.get_nowait(prefer)
        if ok:
            self.F.append(["get", None, ("R", item), None])
        else:
            self.stats["blocked"] += 1
            self.F.append(["get", self.exp_of(tm), "P", None])

    def join(self, tm):
        if self.unfinished == 0:
            self.F.append(["join", None, ("R", None), None])
        else:
            self.stats["blocked"] += 1
            self.F.append(["join", self.exp_of(tm), "P", None])

    def task_done(self):
        """Returns True when the call must raise ValueError."""
        if self.unfinished <= 0:
            return True
        self.unfinished -= 1
        if self.unfinished == 0:
            for x in self.F:
                if x[0] == "join" and x[2] == "P":
                    x[2] = ("R", None)
                    self.stats["jd"] += 1
        return False

    def cancel(self, i):
        if self.F[i][2] == "P":
            self.F[i][2] = "C"
            return True
        return False

    def settle(self):
        n = 0
        for x in self.F:
            if x[2] == "P" and x[1] is not None and x[1] <= self.G:
                x[2] = "T"
                n += 1
        return n

    def apply(self, op):
        k = op[0]
        if k == "put":
            self.put(self.item(op[2]), op[1])
        elif k == "putnw":
            self.put_nowait(self.item(op[1]))
        elif k in ("get", "anext"):
            self.get(op[1] if k == "get" else None)
        elif k == "getnw":
            self.get_nowait()
        elif k == "td":
            self.task_done()
        elif k == "join":
            self.join(op[1])
        elif k == "cancel":
            self.cancel(op[1])
        elif k == "adv":
            self.G += 1
        self.settle()

    def vector(self):
        return [x[2] for x in self.F]

    def pending_timed(self):
        return any(x[2] == "P" and x[1] is not None for x in self.F)


def alpha_fn(full):
    def alpha(m):
        prios = (0, 1) if m.kind == "prio" else (0,)
        ops = []
        for p in prios:
            ops.append(("put", None, p))
            ops.append(("put", ("rel", 0), p))
            if full:
                ops.append(("put", ("zero",), p))
                ops.append(("putnw", p))
        ops += [("get", None), ("get", ("rel", 0)), ("getnw",), ("td",), ("join", None)]
        if full:
            ops += [("get", ("zero",)), ("join", ("rel", 0))]
        for i, x in enumerate(m.F):
            if x[2] == "P":
                ops.append(("cancel", i))
        if m.pending_timed():
            ops.append(("adv",))
        return ops
    return alpha


def may_skip_settle(op):
    if op[0] in ("put", "get", "join"):
        return not sh.needs_settle(op[1])
    return op[0] in ("putnw", "getnw", "td", "cancel")


def rand_history(rng, kind, ms, n):
    m = QModel(kind, ms)
    ops, sync = [], []
    for _ in range(n):
        r = rng.random()
        pend = [i for i, x in enumerate(m.F) if x[2] == "P"]
        p = rng.choice([0, 1, 1, 2])
        if r < 0.22:
            op = ("put", rng.choice(RAND_TMS), p)
        elif r < 0.30:
            op = ("putnw", p)
        elif r < 0.50:
            op = ("get", rng.choice(RAND_TMS))
        elif r < 0.57:
            op = ("getnw",)
        elif r < 0.61:
            op = ("anext",)
        elif r < 0.71:
            op = ("td",)
        elif r < 0.78:
            op = ("join", rng.choice(RAND_TMS))
        elif r < 0.88 and pend:
            op = ("cancel", rng.choice(pend))
        elif r < 0.90 and m.F:
            op = ("cancel", rng.randrange(len(m.F)))
        else:
            op = ("adv",)
        m.apply(op)
        ops.append(op)
        if rng.random() < 0.35 and may_skip_settle(op):
            sync.append(len(ops) - 1)
    return ((kind, ms), tuple(ops), tuple(sync))


BURST_TMS = [None, None, None, None, ("rel", 0), ("rel", 1), ("abs", 0), ("abs", 1), ("zero",)]
# how many waiters block on one queue at the same time: small, around typical container thresholds, and wide
BURST_WIDTHS = [(3, 12), (12, 40), (28, 36), (40, 60), (60, 70), (65, 90), (90, 140), (120, 135), (250, 270)]


def rand_burst(rng, kind, ms, width=None, first_side=None):
    """Long history with WIDE waiter sets: phases of many getters (or, on a bounded queue, putters) blocking on the
    queue at the same time - a share of them with deadlines, some cancelled - then clock advances (so that expired
    waiters sit between live ones) and a serving phase (puts resp. gets) interleaved with new arrivals.  Same op
    alphabet as rand_history; only the mix differs."""
    m = QModel(kind, ms)
    ops, sync = [], []

    def emit(op):
        m.apply(op)
        ops.append(op)
        if rng.random() < 0.3 and may_skip_settle(op):
            sync.append(len(ops) - 1)

    def pend(k):
        return [i for i, x in enumerate(m.F) if x[2] == "P" and x[0] == k]

    for phase in range(rng.choice([1, 1, 2])):
        side = "get" if (ms == 0 or rng.random() < 0.5) else "put"
        lo, hi = rng.choice(BURST_WIDTHS)
        if phase == 0:          # the caller may fix width class and side of the first phase (coverage by construction)
            lo, hi = width or (lo, hi)
            side = first_side if (first_side and (first_side == "get" or ms > 0)) else side
        n = rng.randint(lo, hi)
        timed = rng.choice([0.0, 0.1, 0.3, 0.6])
        if side == "put":
            while not m.full():
                emit(("putnw", rng.choice([0, 1, 2])))
        else:
            while m.items and not m._first("put"):
                emit(("getnw",))

        def waiter():
            tm = rng.choice(BURST_TMS[4:]) if rng.random() < timed else None
            if side == "get":
                return ("anext",) if (tm is None and rng.random() < 0.1) else ("get", tm)
            return ("put", tm, rng.choice([0, 1, 1, 2]))

        def server():
            r = rng.random()
            if side == "get":
                return ("putnw", rng.choice([0, 1, 2])) if r < 0.5 else ("put", rng.choice([None, None, ("rel", 0)]),
                                                                         rng.choice([0, 1, 2]))
            return ("getnw",) if r < 0.5 else ("get", rng.choice([None, None, ("rel", 0)])) if r < 0.9 else ("anext",)

        # arrival phase
        for _ in range(n):
            emit(waiter())
            r = rng.random()
            if r < 0.04 and pend(side):
                emit(("cancel", rng.choice(pend(side))))
            elif r < 0.06:
                emit(server())
            elif r < 0.08 and m.pending_timed():
                emit(("adv",))
            elif r < 0.09:
                emit(("td",))
        for _ in range(rng.choice([0, 1, 1, 2])):
            emit(("adv",))
        for _ in range(rng.choice([0, 0, 1, 3])):
            if pend(side):
                emit(("cancel", rng.choice(pend(side))))
        # serving phase: until (almost) all waiters of the burst have been served, with new arrivals in between
        budget = len(pend(side)) + rng.choice([0, 2, 5])
        leave = rng.choice([0, 0, 0, 3, 10])
        while budget > 0 and len(pend(side)) > leave:
            budget -= 1
            emit(server())
            r = rng.random()
            if r < 0.10:
                emit(waiter())
            elif r < 0.13 and pend(side):
                emit(("cancel", rng.choice(pend(side))))
            elif r < 0.16 and m.pending_timed():
                emit(("adv",))
            elif r < 0.20:
                emit(("td",))
        if rng.random() < 0.3:
            emit(("join", rng.choice([None, ("rel", 0)])))
            for _ in range(rng.randint(0, m.unfinished + 1)):
                emit(("td",))
    return ((kind, ms), tuple(ops), tuple(sync))


# --------------------------------------------------------------------------

def shards(tier, seed):
    out = []
    if tier == "quick":
        for k in range(3):      # one shard per class (4 maxsizes each): keeps subprocess start-up cost low
            out.append({"kind": "exh", "cfgs": [k * 4 + j for j in range(4)], "full": True, "maxlen": EXH_FULL_LEN[tier],
                        "bucket": 0, "nb": 1, "sync": False})
    else:
        for ci in range(len(CONFIGS)):
            out.append({"kind": "exh", "cfg": ci, "full": True, "maxlen": EXH_FULL_LEN[tier], "bucket": 0, "nb": 1,
                        "sync": False})
    nb = 1 if tier == "quick" else 4
    for ci in range(len(CONFIGS)):
        for b in range(nb):
            out.append({"kind": "exh", "cfg": ci, "full": False, "maxlen": EXH_RED_LEN[tier], "bucket": b, "nb": nb,
                        "sync": False})
    for k in range(3):
        out.append({"kind": "exh", "cfgs": [k * 4 + j for j in range(4)], "full": False, "maxlen": EXH_RED_LEN[tier] - 1,
                    "bucket": 0, "nb": 1, "sync": True})
    k = 6 if tier == "quick" else 16
    n = 6000 if tier == "quick" else 800000
    for j in range(k):
        out.append({"kind": "rand", "n": n // k, "maxlen": 24 if tier == "quick" else 40, "j": j})
    kb = 4 if tier == "quick" else 16
    for j in range(kb):
        out.append({"kind": "burst", "n": 14 if tier == "quick" else 500, "j": j})
    return out


def gen_cases(spec):
    if spec["kind"] == "exh":
        alpha = alpha_fn(spec["full"])
        for ci in spec.get("cfgs") or [spec["cfg"]]:
            kind, ms = CONFIGS[ci]
            for idx, p in enumerate(sh.prefixes(alpha, lambda: QModel(kind, ms), 2)):
                if idx % spec["nb"] != spec["bucket"]:
                    continue
                for hist in sh.leaves(alpha, QModel(kind, ms), p, spec["maxlen"]):
                    sync = tuple(i for i, op in enumerate(hist[:-1]) if may_skip_settle(op)) if spec["sync"] else ()
                    yield ((kind, ms), hist, sync)
    elif spec["kind"] == "burst":
        rng = core.rng_for(spec["seed"], PROP, f"burst{spec['j']}")
        nw = len(BURST_WIDTHS)
        for i in range(spec["n"]):
            kind, ms = rng.choice(KINDS), rng.choice([0, 1, 1, 2, 3, 3])
            if i < 2 * nw:
                # every width class once per side in each pair of shards; the rest of the case stays random
                side = "get" if (i // nw + spec["j"]) % 2 == 0 else "put"
                yield rand_burst(rng, kind, ms if side == "get" else max(ms, 1), BURST_WIDTHS[i % nw], side)
            else:
                yield rand_burst(rng, kind, ms)
    else:
        rng = core.rng_for(spec["seed"], PROP, spec["j"])
        for _ in range(spec["n"]):
            yield rand_history(rng, rng.choice(KINDS), rng.choice([0, 1, 1, 2, 2, 3]), rng.randint(4, spec["maxlen"]))


def directed_cases():
    # timed-out getter ahead of a live one, then a put; timed-out putter ahead of a live one, then a get
    yield (("fifo", 1), (("get", ("rel", 0)), ("get", None), ("adv",), ("put", None, 0), ("put", None, 0),
                         ("put", ("rel", 0), 0), ("put", None, 0), ("adv",), ("getnw",), ("getnw",), ("getnw",)), ())
    yield (("prio", 2), (("put", None, 1), ("put", None, 0), ("put", None, 0), ("get", None), ("get", None), ("get", None),
                         ("td",), ("join", None), ("td",), ("td",), ("td",)), ())
    yield (("lifo", 1), (("put", None, 0), ("put", None, 0), ("cancel", 1), ("put", None, 0), ("get", None), ("get", None),
                         ("get", ("zero",))), ())
    # wide waiter sets: 70 getters (every fifth with a deadline) blocked at once, deadlines pass, then 75 puts;
    # 80 putters blocked on a full maxsize-1 queue (some timed out), then everything is taken out
    yield (("fifo", 0), tuple(("get", ("rel", 0) if i % 5 == 2 else None) for i in range(70)) + (("adv",),)
           + tuple(("putnw", 0) for _ in range(75)), ())
    yield (("fifo", 1), (("putnw", 0),) + tuple(("put", ("rel", 0) if i % 7 == 3 else None, 0) for i in range(80))
           + (("adv",),) + tuple(("getnw",) for _ in range(72)), ())
    yield (("prio", 2), (("putnw", 1), ("putnw", 1)) + tuple(("put", None, i % 3) for i in range(130))
           + tuple(("get", None) for _ in range(140)) + tuple(("putnw", 0) for _ in range(8)), ())


# --------------------------------------------------------------------------

_ncases = 0
CLASSES = {"fifo": queues.Queue, "lifo": queues.LifoQueue, "prio": queues.PriorityQueue}


def view(f):
    return sh.fstate(f)


def name(s):
    if isinstance(s, tuple):
        return "resolved"
    return {"P": "pending", "T": "TimeoutError", "C": "cancelled"}.get(s, "error-" + s[2:])


async def _drive(case, ctx, lm, pos):
    (kind, ms), ops, sync = case
    sync = set(sync)
    loop = asyncio.get_event_loop()
    lm.attach_loop(loop)
    clock = sh.Clock()
    q = CLASSES[kind](maxsize=ms)
    m = QModel(kind, ms)
    futs = []
    ait = q.__aiter__()

    def fail(mech, what, wit):
        wit = dict(wit)
        wit.update({"class": kind, "maxsize": ms, "model_items": list(m.items), "model_unfinished": m.unfinished})
        ctx.violation(mech, what, wit)
        return False

    def compare(step, i):
        ctx.count("oracle_evals")
        want = m.vector()
        got = [view(f) for f in futs]
        if got != want:
            j = next(k for k in range(len(want)) if got[k] != want[k])
            fk = m.F[j][0]
            own = "own" if (step[0] in ("put", "get", "join", "anext") and j == len(want) - 1) else "other"
            if isinstance(want[j], tuple) and isinstance(got[j], tuple):
                tr = "wrong-item"
            else:
                tr = f"{name(want[j])}->{name(got[j])}"
            return fail(f"{step[0]}/{own}-{fk}:{tr}",
                        f"after {step[0]} the {fk} future #{j} is {got[j]!r} but the sequential model says {want[j]!r}",
                        {"step_index": i, "step": step, "got": got, "want": want, "grid_time": m.G})
        obs = (q.qsize(), q.empty(), q.full())
        exp = (len(m.items), not m.items, m.full())
        if obs != exp:
            which = next(n for n, a, b in zip(("qsize", "empty", "full"), obs, exp) if a != b)
            return fail(f"{step[0]}/{which}", f"after {step[0]} {which}() differs from the model",
                        {"step_index": i, "step": step, "got": obs, "want": exp})
        if ms > 0 and obs[0] > ms:
            return fail("qsize-exceeds-maxsize", "queue holds more than maxsize items", {"step": step, "qsize": obs[0]})
        m.stats["peakg"] = max(m.stats.get("peakg", 0), sum(1 for x in m.F if x[2] == "P" and x[0] == "get"))
        m.stats["peakp"] = max(m.stats.get("peakp", 0), sum(1 for x in m.F if x[2] == "P" and x[0] == "put"))
        return True

    for i, step in enumerate(ops):
        k = step[0]
        pos[:] = [i, step]
        if k == "put":
            item = m.item(step[2])
            futs.append(q.put(item, clock.arg(step[1])) if step[1] is not None else q.put(item))
            m.put(item, step[1])
        elif k == "putnw":
            item = m.item(step[1])
            try:
                q.put_nowait(item)
                got = True
            except queues.QueueFull:
                got = False
            want = m.put_nowait(item)
            if not want:
                ctx.count("queue_full_raises")
            if got != want:
                return fail("putnw/" + ("accepted-when-full" if got else "QueueFull-when-room"),
                            "put_nowait accepted/rejected differently from the model", {"step_index": i, "step": step})
        elif k in ("get", "anext"):
            tm = step[1] if k == "get" else None
            cands = m.get_candidates()
            if k == "anext":
                f = ait.__anext__()
            else:
                f = q.get(clock.arg(tm)) if tm is not None else q.get()
            futs.append(f)
            prefer = None
            if len(cands) > 1:
                ctx.count("unspecified_get_racing_blocked_putter")
                if f.done() and not f.cancelled() and f.exception() is None:
                    prefer = f.result()
            m.get(tm, prefer)
        elif k == "getnw":
            cands = m.get_candidates()
            try:
                got = (True, q.get_nowait())
            except queues.QueueEmpty:
                got = (False, None)
            if len(cands) > 1:
                ctx.count("unspecified_get_racing_blocked_putter")
            want = m.get_nowait(got[1] if len(cands) > 1 else None)
            if not want[0]:
                ctx.count("queue_empty_raises")
            if got != want:
                mech = "getnw/wrong-item" if (got[0] and want[0]) else (
                    "getnw/returned-item-when-empty" if got[0] else "getnw/QueueEmpty-when-item-available")
                return fail(mech, "get_nowait result differs from the model",
                            {"step_index": i, "step": step, "got": got, "want": want})
        elif k == "td":
            must = m.task_done()
            try:
                q.task_done()
                raised = False
            except ValueError:
                raised = True
            if must:
                ctx.count("task_done_over_raises")
            if raised != must:
                return fail("task_done/" + ("spurious-ValueError" if raised else "extra-call-did-not-raise"),
                            "task_done raise behaviour differs from the model (one task per accepted put)",
                            {"step_index": i, "step": step})
        elif k == "join":
            futs.append(q.join(clock.arg(step[1])) if step[1] is not None else q.join())
            m.join(step[1])
        elif k == "cancel":
            want = m.cancel(step[1])
            if want:
                ctx.count("cancels_of_pending")
            got = futs[step[1]].cancel()
            if got != want:
                # join(timeout) futures resolve one loop iteration after task_done; cancelling in that window is
                # outside what the statement pins
                if m.F[step[1]][0] == "join":
                    ctx.count("unspecified_cancel_of_settling_join")
                    return None
                return fail("cancel/return-value", "Future.cancel() returned the wrong value",
                            {"step_index": i, "step": step, "got": got, "want": want})
        elif k == "adv":
            m.G += 1
            await clock.advance()
        if i in sync:
            continue
        await vloop.settle()
        ctx.count("timeouts_seen", m.settle())
        if not compare(step, i):
            return None
    # conservation: drain the queue; everything the model still holds must come out, in discipline order
    pos[:] = [len(ops), ("drain",)]
    await vloop.settle()
    m.settle()
    ctx.count("drain_evals")
    for x, f in zip(m.F, futs):       # stop blocked putters/getters from taking part in the drain
        if x[2] == "P" and x[0] != "join":
            x[2] = "C"
            f.cancel()
    await vloop.settle()
    drained, want = [], []
    for _ in range(len(m.items) + 2):
        try:
            drained.append(q.get_nowait())
        except queues.QueueEmpty:
            break
    while True:
        ok, it = m.get_nowait()
        if not ok:
            break
        want.append(it)
    if drained != want:
        return fail("drain/" + ("items-lost" if len(drained) < len(want) else "items-duplicated-or-invented"
                                if len(drained) > len(want) else "wrong-order"),
                    "draining the queue at the end of the history yields different items than the model holds",
                    {"got": drained, "want": want})
    return m.stats


async def drive(case, ctx, lm):
    """Any exception escaping an operation of the object under test is a finding, not a harness error."""
    import traceback
    pos = [None, ("setup",)]
    try:
        return await _drive(case, ctx, lm, pos)
    except Exception as e:
        ctx.violation(f"{pos[1][0]}/raises-{type(e).__name__}",
                      f"operation {pos[1][0]} raised {type(e).__name__} out of the public API",
                      {"step_index": pos[0], "step": pos[1], "err": repr(e), "traceback": traceback.format_exc()[-1500:]})
        return None


def run_case(case, ctx):
    global _ncases
    _ncases += 1
    with LogMon() as lm:
        try:
            res = vloop.run(drive, case, ctx, lm, collect=False)
        except vloop.Quiescent:
            ctx.violation("harness/quiescent", "virtual loop went idle inside the driver", None)
            return
        ctx.count("log_checks")
        bad = lm.uncaught()
        if bad:
            r = bad[0]
            ctx.violation(f"log/{r['logger']}-{r['exc'] or 'error'}",
                          "uncaught-error record while running a queue history", {"records": bad[:3]})
            return
    if _ncases % 400 == 0:
        gc.collect()
    if res is None:
        return
    ctx.count("blocked_get_served", res["bg"])
    ctx.count("blocked_put_served", res["bp"])
    ctx.count("join_completed_by_task_done", res["jd"])
    for key, what in (("peakg", "getters"), ("peakp", "putters")):
        w = res.get(key, 0)
        if w > 8:
            ctx.count(f"histories_peak_blocked_{what}_" + ("9_32" if w <= 32 else "33_64" if w <= 64 else
                                                           "65_128" if w <= 128 else "over_128"))
    nontriv = res["blocked"] >= 1 and res["delivered"] >= 1
    ctx.mark(case, nontriv)
    if nontriv:
        ctx.sample({"class": case[0][0], "maxsize": case[0][1], "ops": [list(o) for o in case[1]],
                    "nosettle_after": list(case[2])}, limit=3)
