"""C22 — linkify output is escaped text plus safe links only.

Every generated text is run through the real `tornado.escape.linkify` under one
option set; the output is taken apart by an independent scanner (every `<` in
the output must open `<a href="…"…>` or `</a>`, because escaped text cannot
contain `<`) and compared with an independent 5-entry escaper.
"""
from __future__ import annotations

from vf import core

core.use_repo()
from tornado.escape import linkify  # noqa: E402

PROP = "C22"
META = {
    "level": "exploration",
    "technique": "structural scan of linkify output + independent 5-entry escaper over URL-fragment texts x option sets",
    "level_text": ("Texts assembled from URL-like fragments (schemes, www., hosts, paths/queries with &, quotes, angle "
                   "brackets, parentheses, ready-made entities, long paths around the 30/45-character shortening "
                   "thresholds with an escapable character at every offset near the cuts, unicode, trailing "
                   "punctuation) are linkified by the real function under all combinations of shorten x "
                   "require_protocol x permitted_protocols x extra_params; an independent scanner removes the inserted "
                   "anchors and the remainder, every label, every href and every entity is checked. Call histories (2-9, "
                   "occasionally 101-130 calls in one process) pass the same list object edited in place between calls, a new "
                   "short-lived list/set/tuple per call, or many containers alive at once, the protocols changing from call to "
                   "call while the texts keep offering the withdrawn ones; each call is judged against what its container holds "
                   "at that moment."),
    "level_note": ("Trusts the 40-line anchor scanner and the 5-entry escape table; apostrophe may be written &#x27; or "
                   "&#39;; scheme comparison is case-insensitive (an upper-case variant of a permitted scheme would not "
                   "be reported)."),
    "design_ref": "DESIGN.md §4 C22",
    "engine": "oracle",
}
RULE = ("a case is (text, option-set index); texts are 1-6 fragments drawn from URL-like and plain pools, plus a systematic "
        "family host/path with one escapable character at each offset 0..40 of the URL; non-trivial = the output contains "
        "at least one inserted anchor or the text contains a scheme/www. candidate that had to be refused; a history "
        "(container relation, [(container type, protocols, text, options)...]) is non-trivial when some call's text offers "
        "a protocol withdrawn since the previous call; distinct by (text, options) / the whole history")
FLOORS = {"quick": 8000, "thorough": 200000}
ASSUMPTIONS = ["the anchor scanner and 5-entry escaper are correct",
               "extra_params values used by the generator contain no '<' or '>'",
               "catastrophic regex run time is only observed through the shard watchdog"]
REQUIRED_COUNTERS = ["oracle_evals", "anchors_checked", "labels_shortened", "refused_candidates", "history_cases",
                     "history_mode_mutated", "history_mode_fresh", "history_mode_kept",
                     "history_calls_with_withdrawn_protocol_in_text"]

PERMITTED = [None, ["http", "https", "ftp"], ["http", "javascript"], set(), ["https"], {"http", "https", "mailto"}]
EXTRA = ["", 'rel="nofollow" class="x"', "cb"]


def _cb(href):
    return '  class="c%d" ' % (len(href) % 3)


def option_sets():
    out = []
    for sh in (False, True):
        for rp in (False, True):
            for pi in range(len(PERMITTED)):
                for ei in range(len(EXTRA)):
                    out.append((sh, rp, pi, ei))
    return out


OPTS = option_sets()
# option sets used for the bulk (all combinations of the first three dimensions, extra_params rotated)
SCHEMES = ["http", "https", "ftp", "javascript", "mailto", "HTTP", "file", "x-y", "hé", "a1", "data"]
SEPS = ["://", ":/", ":///", ":", "://", "://", "::", ":////"]
HOSTS = ["example.com", "www.example.com", "a.b", "localhost:8080", "xn--nxasmq6b.gr", "über.de", "h", "1.2.3.4",
         "u:p@host.org", "reallylongdomainnamethatwillbetoolong.com", "ex-ample.co.uk", "[::1]", ""]
PATHCH = "abcdefXYZ019-_~/?=.,;:!#%+@$*|^`{}[]"
SPECIAL = ["&", "\"", "'", "<", ">", "(", ")", "&amp;", "&quot;", "&lt;", "&#38;", "&#x27;", "&amp", "&;", ";", " "]
PLAIN = ["hello", " ", "  ", "\n", "\t", ".", ",", "!", "?", "(", ")", "see:", "café", "\U0001f600", "中文",
         "é", "a&b", "<b>", "\"q\"", "it's", "&amp;", "&lt;", "x@y.z", "www", "www.", "http", "http:", "//", "/",
         "\x00", " ", "\xa0", "-", "_"]


def _path(rng, n):
    out = []
    ln = 0
    while ln < n:
        r = rng.random()
        if r < 0.18:
            s = rng.choice(SPECIAL)
        elif r < 0.24:
            s = rng.choice(["é", "中", "\U0001f600"])
        else:
            s = rng.choice(PATHCH)
        out.append(s)
        ln += len(s)
    return "".join(out)


def _urlish(rng):
    r = rng.random()
    if r < 0.2:
        head = "www." + rng.choice(HOSTS)
    elif r < 0.25:
        head = rng.choice(["www", "WWW.", "www..", "wwww."]) + rng.choice(HOSTS)
    else:
        head = rng.choice(SCHEMES) + rng.choice(SEPS) + rng.choice(HOSTS)
    r = rng.random()
    if r < 0.15:
        tail = ""
    else:
        n = rng.choice([1, 3, 6, 8, 9, 12, 20, 28, 30, 33, 45, 46, 60])
        tail = "/" * (rng.random() < 0.85) + _path(rng, n)
    return head + tail + rng.choice(["", "", ".", ",", "!", ")", "...", "?", ";", "'", "\""])


def _systematic(rng):
    """host/path whose escaped form has an entity starting at a chosen offset."""
    scheme = rng.choice(["http://", "https://", "www.", "ftp://", "http:/"])
    hostlen = rng.randint(1, 34)
    host = "".join(rng.choice("abcdefghij") for _ in range(hostlen))
    if rng.random() < 0.7:
        host = host[: max(1, hostlen - 4)] + ".com"
    k = rng.randint(0, 14)
    pre = "".join(rng.choice("abcdef.?=") for _ in range(k))
    ch = rng.choice(["&", "&", "&", "\"", "&amp;", "&quot;", "'", "<"])
    post = _path(rng, rng.choice([0, 2, 10, 30]))
    slash = "/" if rng.random() < 0.8 else ""
    return scheme + host + slash + pre + ch + post


def gen_text(rng):
    r = rng.random()
    parts = []
    n = rng.randint(1, 5)
    for _ in range(n):
        q = rng.random()
        if q < 0.45:
            parts.append(_urlish(rng))
        elif q < 0.6:
            parts.append(_systematic(rng))
        else:
            parts.append(rng.choice(PLAIN))
        if rng.random() < 0.6:
            parts.append(rng.choice([" ", " ", "\n", "", "(", ") ", ", "]))
    if r < 0.25:
        return _systematic(rng)
    return "".join(parts)


PROTO_POOL = ["http", "https", "ftp", "javascript", "mailto", "file", "data", "x-y", "a1"]


def gen_history(rng):
    """-> ("hist", mode, [(container type, protocols, text, shorten, require_protocol, extra index, as_bytes)...]).
    Consecutive containers mostly differ by a protocol withdrawn or added, and the text of every call contains links
    with the protocols of the previous call (so a withdrawn protocol is on offer) among generated fragments."""
    mode = rng.choice(["mutated", "mutated", "fresh", "fresh", "fresh", "kept"])
    n = rng.choice([2, 3, 3, 4, 6, 9]) if rng.random() < 0.97 else rng.randint(101, 130)
    ctype = "list" if mode == "mutated" else rng.choice(["list", "list", "set", "tuple"])
    cur = rng.sample(PROTO_POOL, rng.choice([1, 2, 3, 3, 4]))
    steps = []
    prev = None
    for _ in range(n):
        if prev is not None:
            cur = list(prev)
            r = rng.random()
            if r < 0.55 and cur:
                cur.remove(rng.choice(cur))
                if rng.random() < 0.3:
                    cur.append(rng.choice([x for x in PROTO_POOL if x not in prev] or ["http"]))
            elif r < 0.75:
                cur.append(rng.choice([x for x in PROTO_POOL if x not in cur] or ["http"]))
            elif r < 0.85:
                cur = rng.sample(PROTO_POOL, rng.choice([0, 1, 2, 3]))
            if mode != "mutated" and rng.random() < 0.3:
                ctype = rng.choice(["list", "set", "tuple"])
        cur = list(dict.fromkeys(cur))
        offer = list(dict.fromkeys((prev or []) + cur + [rng.choice(PROTO_POOL)]))
        rng.shuffle(offer)
        frags = []
        for sch in offer[:rng.choice([2, 3, 5])]:
            frags.append(sch + rng.choice(["://", "://", ":/", ":"]) + rng.choice(HOSTS[:8]) +
                         rng.choice(["", "/", "/" + _path(rng, rng.choice([3, 12, 33]))]))
        if rng.random() < 0.5:
            frags.append(gen_text(rng))
        rng.shuffle(frags)
        text = rng.choice([" ", "\n", " and ", ", "]).join(frags)
        steps.append((ctype, tuple(cur), text, rng.random() < 0.4, rng.random() < 0.4, rng.randrange(len(EXTRA)),
                      rng.random() < 0.1))
        prev = cur
    return ("hist", mode, steps)


def shards(tier, seed):
    k = 16
    n = 48000 if tier == "quick" else 2400000
    return [{"n": n // k, "j": j} for j in range(k)]


def gen_cases(spec):
    rng = core.rng_for(spec["seed"], PROP, spec["j"])
    i = 0
    n = spec["n"]
    while i < n:
        if rng.random() < 0.04:
            h = gen_history(rng)
            yield h
            i += len(h[2])
            continue
        text = gen_text(rng)
        as_bytes = rng.random() < 0.1
        # each text under 3 option sets: one fully random, one with shorten, one without
        for oi in (rng.randrange(len(OPTS)), rng.randrange(len(OPTS) // 2, len(OPTS)), rng.randrange(len(OPTS) // 2)):
            yield (text, oi, as_bytes)
            i += 1


def directed_cases():
    # DESIGN §5: the 8-character path clip cuts &amp; when the '&' lies before position 25
    yield ("http://example.com/abcde&foo=1&bar=2xxxxxxxx", OPTS.index((True, False, 0, 0)), False)
    # the 30-character clip cuts &quot; when the '&' is exactly at position 25
    yield ("http://abcdefghijklmnopqr\"stuvwxyzabcdefghijklmnopq", OPTS.index((True, False, 0, 0)), False)
    yield ("www.example.com/abc&def&ghi&jkl&mno&pqr&stu&vwx", OPTS.index((True, False, 0, 1)), False)
    yield ("javascript://alert(1) http://ok.com", OPTS.index((False, False, 0, 0)), False)
    # call histories: what is permitted is what the container holds at the time of each call
    t = "see ftp://files.example.com/a and javascript://alert(1) or http://example.com/"
    for mode, ct in (("mutated", "list"), ("fresh", "list"), ("fresh", "set"), ("fresh", "tuple"), ("kept", "list")):
        yield ("hist", mode, [(ct, ("http", "ftp", "javascript"), t, False, False, 0, False),
                              (ct, ("http",), t, False, False, 0, False),
                              (ct, ("http", "javascript"), t, True, False, 1, False),
                              (ct, (), t, False, True, 2, False),
                              (ct, ("ftp",), t, False, False, 0, True)])


# ---------------------------------------------------------------------------------------------
# independent side

_TABLE = {"&": "&amp;", "<": "&lt;", ">": "&gt;", "\"": "&quot;", "'": "&#x27;"}
_ENTS = ("&amp;", "&lt;", "&gt;", "&quot;", "&#x27;")


def ref_escape(s):
    return "".join(_TABLE.get(c, c) for c in s)


def split_entity_at(s):
    """index of an '&' that does not start a complete entity, else -1."""
    i = s.find("&")
    while i != -1:
        if not s.startswith(_ENTS, i):
            return i
        i = s.find("&", i + 1)
    return -1


class ScanError(Exception):
    def __init__(self, kind, pos):
        self.kind = kind
        self.pos = pos


def scan(out):
    """-> list of ("text", s) / ("a", href, rest_of_tag, label).  Raises ScanError."""
    items = []
    i = 0
    n = len(out)
    while i < n:
        j = out.find("<", i)
        if j == -1:
            items.append(("text", out[i:]))
            break
        if j > i:
            items.append(("text", out[i:j]))
        if not out.startswith('<a href="', j):
            raise ScanError("tag-other-than-anchor", j)
        h0 = j + len('<a href="')
        h1 = out.find('"', h0)
        if h1 == -1:
            raise ScanError("href-unterminated", j)
        href = out[h0:h1]
        t1 = out.find(">", h1)
        if t1 == -1:
            raise ScanError("open-tag-unterminated", j)
        rest = out[h1 + 1:t1]
        e = out.find("</a>", t1 + 1)
        if e == -1:
            raise ScanError("anchor-not-closed", j)
        label = out[t1 + 1:e]
        if "<" in label:
            raise ScanError("tag-inside-label", j)
        items.append(("a", href, rest, label))
        i = e + 4
    return items


def run_case(case, ctx):
    if case[0] == "hist":
        return run_history(case, ctx)
    text, oi, as_bytes = case
    sh, rp, pi, ei = OPTS[oi]
    r = judge_call(ctx, text, sh, rp, PERMITTED[pi], ei, as_bytes)
    if r is not None:
        nanch, refused = r
        ctx.mark((text, oi, as_bytes), bool(nanch or refused))


class _Held:
    """ctx view that holds violations back until the caller has classified them."""

    def __init__(self, ctx, silent=False):
        self._ctx, self._silent = ctx, silent
        self.pending = []

    def count(self, key, n=1):
        if not self._silent:
            self._ctx.count(key, n)

    def sample(self, obj, limit=4):
        if not self._silent:
            self._ctx.sample(obj, limit)

    def violation(self, mechanism, what, witness=None):
        self.pending.append((mechanism, what, witness))


def run_history(case, ctx):
    """Several calls in one process whose permitted_protocols containers are related: one object edited in place
    between calls, a new short-lived object for every call, or many objects alive at once.  Every call is judged
    by the same oracle against the protocols its own container holds *at the time of that call*.

    A failing call is repeated with a container object that did not exist before (and of another type): if that
    call is answered correctly the failure is attributed to the call history (mechanism prefix `call-history/`)."""
    _, mode, steps = case
    ctx.count("history_cases")
    ctx.count("history_mode_" + mode)
    shared = []                # the one object of mode "mutated"
    alive = []                 # mode "kept": every container stays referenced
    prev = None
    nontriv = False
    for idx, (ctype, contents, text, sh, rp, ei, as_bytes) in enumerate(steps):
        make = {"list": list, "set": set, "tuple": tuple}[ctype]
        if mode == "mutated":
            # same list object throughout, edited in place
            if prev is not None:
                for x in [x for x in shared if x not in contents]:
                    shared.remove(x)
            for x in contents:
                if x not in shared:
                    shared.append(x)
            obj = shared
        else:
            obj = make(contents)
            if mode == "kept":
                alive.append(obj)
        held = _Held(ctx)
        ctx.count("history_calls")
        if prev is not None and set(prev) - set(contents):
            ctx.count("history_calls_after_protocol_withdrawn")
            withdrawn = set(prev) - set(contents)
            if any((w + ":") in text for w in withdrawn):
                ctx.count("history_calls_with_withdrawn_protocol_in_text")
                nontriv = True
        judge_call(held, text, sh, rp, obj, ei, as_bytes, expect_permitted=list(contents))
        if held.pending:
            ctl = _Held(ctx, silent=True)
            other = frozenset(contents) if ctype != "set" else tuple(contents)
            alive.append(other)
            judge_call(ctl, text, sh, rp, other, ei, as_bytes, expect_permitted=list(contents))
            prefix = "" if ctl.pending else "call-history/%s/" % mode
            for mech, what, wit in held.pending:
                ctx.violation(prefix + mech, what, dict(wit or {}, history_mode=mode, step=idx,
                                                        earlier_calls=[(c[0], list(c[1])) for c in steps[:idx]]))
            return
        del obj
        prev = contents
    ctx.mark(("hist", mode, repr(steps)), nontriv)


def judge_call(ctx, text, sh, rp, permitted_arg, ei, as_bytes, expect_permitted=None):
    """One linkify call judged by the structural oracle.  -> (anchors, refused), or None when a violation ended the
    examination early."""
    kw = {"shorten": sh, "require_protocol": rp}
    if permitted_arg is not None:
        kw["permitted_protocols"] = permitted_arg
    permitted = expect_permitted if expect_permitted is not None else (
        permitted_arg if permitted_arg is not None else ["http", "https"])
    extra = EXTRA[ei]
    if extra == "cb":
        kw["extra_params"] = _cb
    elif extra:
        kw["extra_params"] = extra
    arg = text.encode("utf-8") if as_bytes else text
    tag = "shorten" if sh else "plain"
    try:
        out = linkify(arg, **kw)
    except Exception as e:
        ctx.violation(f"{tag}/raises-{type(e).__name__}", "linkify raised", {"text": text, "kw": repr(kw), "err": repr(e)})
        return
    ctx.count("oracle_evals")
    wit = {"text": text, "kw": repr(kw), "out": out}
    if not isinstance(out, str):
        ctx.violation(f"{tag}/result-not-str", "linkify did not return str", wit)
        return
    out = out.replace("&#39;", "&#x27;")
    want = ref_escape(text)
    try:
        items = scan(out)
    except ScanError as e:
        wit["at"] = e.pos
        ctx.violation(f"{tag}/scan/{e.kind}", "output contains markup other than well-formed inserted anchors", wit)
        return
    pos = 0
    nanch = 0
    ok = True
    for it in items:
        if it[0] == "text":
            t = it[1]
            if not want.startswith(t, pos):
                ctx.violation(f"{tag}/text-differs-from-escaped-input",
                              "text outside anchors is not the HTML-escaped input", dict(wit, want=want, at=pos))
                return
            pos += len(t)
            continue
        _, href, rest, label = it
        nanch += 1
        ctx.count("anchors_checked")
        # which piece of the escaped input is this link?
        if want.startswith(href, pos):
            url, has_proto = href, True
        elif href.startswith("http://") and want.startswith(href[7:], pos):
            url, has_proto = href[7:], False
        else:
            ctx.violation(f"{tag}/href-is-not-the-escaped-url-text",
                          "href is not the escaped input text at the link position (optionally prefixed http://)",
                          dict(wit, href=href, want=want, at=pos))
            return
        pos += len(url)
        # href safety
        if any(c in href for c in "\"<>'"):
            ok = False
            ctx.violation(f"{tag}/href-contains-raw-quote-or-angle", "href contains an unescaped quote/angle bracket",
                          dict(wit, href=href))
        if split_entity_at(href) != -1:
            ok = False
            ctx.violation(f"{tag}/href-splits-entity", "href contains '&' that is not a complete entity", dict(wit, href=href))
        if has_proto:
            scheme = href.split(":", 1)[0] if ":" in href else None
            if href.startswith("www.") and scheme not in permitted and (scheme is None or "/" in scheme or "." in scheme):
                # a www. link that happens to contain ':' later; it must have been given the http:// prefix
                ok = False
                ctx.violation(f"{tag}/www-link-without-http-prefix", "protocol-less link was not given an http:// prefix",
                              dict(wit, href=href))
            elif scheme is None or scheme.lower() not in {p.lower() for p in permitted}:
                ok = False
                ctx.violation(f"{tag}/href-protocol-not-permitted", "href uses a protocol outside permitted_protocols",
                              dict(wit, href=href, permitted=repr(permitted)))
        else:
            ctx.count("www_links")
            if not url.startswith("www."):
                ok = False
                ctx.violation(f"{tag}/protocol-less-link-not-www", "http:// was prefixed to something not starting www.",
                              dict(wit, href=href))
            if rp:
                ok = False
                ctx.violation(f"{tag}/www-link-despite-require_protocol",
                              "protocol-less link was linkified although require_protocol=True", dict(wit, href=href))
        # label
        if label != url:
            if not sh:
                ctx.violation("plain/label-differs-from-url", "label differs from the url without shorten", dict(wit, label=label))
                return
            ctx.count("labels_shortened")
            if not (label.endswith("...") and url.startswith(label[:-3]) and len(label) < len(url)):
                ok = False
                ctx.violation("shorten/label-not-prefix-plus-ellipsis", "shortened label is not a shorter prefix of the url + '...'",
                              dict(wit, label=label, url=url))
            elif split_entity_at(label[:-3]) != -1:
                ok = False
                ctx.violation("shorten/label-splits-entity",
                              "shortened link label ends inside a character entity", dict(wit, label=label, url=url))
        # rest of the open tag: extra params then optional title
        exp = ""
        if extra == "cb":
            exp = " " + _cb(href).strip()
        elif extra:
            exp = " " + extra.strip()
        if rest != exp and rest != exp + ' title="%s"' % href:
            ok = False
            ctx.violation(f"{tag}/open-tag-attributes-unexpected", "anchor attributes are not extra_params [+ title=href]",
                          dict(wit, rest=rest, expected=exp))
    if pos != len(want):
        ok = False
        ctx.violation(f"{tag}/output-truncated-or-extended", "output without anchors is not the whole escaped input",
                      dict(wit, want=want))
    refused = 0
    if nanch == 0 and ("://" in text or "www." in text):
        refused = 1
        ctx.count("refused_candidates")
    if nanch and ok and sh:
        ctx.sample({"text": text, "kw": repr(kw), "out": out}, limit=3)
    return (nanch, refused)
