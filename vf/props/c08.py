"""C08 - SimpleAsyncHTTPClient decodes any response stream like a strict HTTP/1.1 reader.

Every case is one response byte stream (built by a grammar + one optional mutation).  A
FakeOrigin (plain asyncio, no tornado parser) serves it under several segmentations; the real
client fetches it through the public `fetch()` with client-side read plans, with/without
streaming_callback, decompress_response and max_body_size, with default and with disabled
timeouts.  Oracle: vf.refs.http strict three-valued reader (+ full-stream gzip check).
"""
from __future__ import annotations

import gzip
import zlib

from vf import core, vloop
from vf.logmon import LogMon
from vf.refs import clientrig
from vf.refs import http as ref
from vf.wire import cuts_for, read_plan_for

core.use_repo()
from tornado.httpclient import HTTPRequest  # noqa: E402

PROP = "C08"
META = {
    "level": "exploration",
    "technique": "differential monitor: real fetch() vs strict three-valued response reader over generated streams x segmentations x client options on a virtual-time loop",
    "level_text": "Grammar-generated valid and near-valid HTTP/1.x response streams (CL / chunked / close-delimited, 1xx interim, 204/304/HEAD, gzip valid/truncated/corrupt/bomb) are served by a harness-owned unix-socket origin under several server segmentations and client read plans; the HTTPResponse (or Σ streaming chunks) returned by the real SimpleAsyncHTTPClient is compared with what an independent strict reader extracts; rejection, completion (by virtual-loop quiescence), max_body_size and uncaught-exception logs are monitored.",
    "level_note": "Trusts vf/refs/http.py (strict reader) and zlib. Accept-vs-reject verdicts are taken only for classes pinned by RFC 9112/9110; obs-fold, bare LF/CR, chunk extensions, trailers, header-character leniency, whitespace before the colon, leading empty lines, status line without SP, chunked in HTTP/1.0, duplicate equal Content-Length, CL or TE on 1xx/204, 101, trailing garbage after a gzip member are executed and counted but not gated (safety half only: completes once, size limit, no uncaught log, same outcome under every segmentation). TLS and curl_httpclient are not exercised.",
    "design_ref": "DESIGN.md §4 C08",
    "engine": "oracle",
}
RULE = ("a case = (method, response byte stream from the grammar: 0-2 interim 1xx, status line, header pool, framing "
        "{CL, chunked, close, none}, optional gzip variant, at most one mutation from a 45-entry catalogue, optional "
        "truncation/extra bytes) executed under 3-4 (thorough 5-6) configurations of server segmentation x client read "
        "plan x streaming x decompress x max_body_size x timeouts; non-trivial = the stream carries a body, an interim "
        "response or a mutation; distinct by (method, stream bytes, eof mode)")
FLOORS = {"quick": 1500, "thorough": 60000}
ASSUMPTIONS = [
    "the strict reader vf/refs/http.py implements RFC 9112 section 6 framing correctly",
    "AF_UNIX delivery is synchronous, so virtual-time jumps cannot overtake bytes in flight",
    "the origin reads the complete request before it answers (no early-response races)",
]
REQUIRED_COUNTERS = ["oracle_evals", "accept_ok", "reject_err", "gzip_decoded", "limit_evals", "streaming_runs",
                     "bodiless_gzip_label_ok"]
SHARD_TIMEOUT = {"quick": 240, "thorough": 3600}

CRLF = b"\r\n"
BIG = 104857600


def shards(tier, seed):
    if tier == "quick":
        return [{"n": 220} for _ in range(16)]
    return [{"n": 2500} for _ in range(48)]


# ------------------------------------------------------------------ generator

REASONS = [b"OK", b"OK", b"OK", b"", b"Not Found", b"caf\xe9", b"Very  OK", b"O\tK", b"x" * 60, b"200"]
CODES_BODY = [200, 200, 200, 200, 201, 206, 299, 301, 404, 500, 503, 599, 600, 999]
INTERIM = [100, 100, 102, 103, 199]
HDRS = [(b"X-A", b"1"), (b"x-a", b"2"), (b"Set-Cookie", b"a=b; Path=/"), (b"Set-Cookie", b"c=d"),
        (b"X-Empty", b""), (b"X-Sp", b"a  b\tc"), (b"X-Obs", b"caf\xe9"),
        (b"Content-Type", b"text/plain; charset=utf-8"), (b"X-Long", b"v" * 1500),
        (b"Connection", b"close"), (b"Date", b"Mon, 01 Jan 2024 00:00:00 GMT"),
        (b"X-Colon", b"a:b: c"), (b"Location", b"/elsewhere"), (b"Content-Length-X", b"7"),
        (b"Transfer-Encoding-X", b"chunked"), (b"ETag", b'"abc"'), (b"X-Num", b"0")]
OWS = [(b" ", b""), (b"", b""), (b"\t", b" "), (b"  ", b"\t "), (b" ", b"")]

# mutation -> generator-side label: "reject" (strict reader must reject), "unspec" (never gated),
# "either" (recipient may accept or reject; if it accepts the result must match)
MUTATIONS = {
    # Content-Length syntax
    "cl_plus": "reject", "cl_underscore": "reject", "cl_hex": "reject", "cl_neg": "reject",
    "cl_float": "reject", "cl_empty": "reject", "cl_space_inside": "reject", "cl_conflict": "reject",
    "cl_dup_equal": "either", "cl_list_equal": "either", "cl_leading_zeros": "accept",
    # Transfer-Encoding
    "te_cl_both": "reject", "te_gzip": "reject", "te_identity": "reject", "te_gzip_chunked": "reject",
    "te_twice": "reject", "te_case": "accept", "te_http10": "unspec",
    # chunked syntax
    "chunk_bad_hex": "reject", "chunk_neg": "reject", "chunk_empty_size": "reject", "chunk_0x": "reject",
    "chunk_ws": "reject", "chunk_no_crlf": "reject", "chunk_ext": "unspec", "chunk_trailer": "unspec",
    "chunk_upper_zeros": "accept",
    # status line
    "st_http2": "reject", "st_http1": "reject", "st_lower": "reject", "st_2digit": "reject", "st_4digit": "reject",
    "st_alpha": "reject", "st_nosp": "reject", "st_missing_reason_sp": "unspec", "st_garbage": "reject",
    "st_bare_cr": "unspec", "st_leading_crlf": "unspec",
    # header lines
    "h_nocolon": "reject", "h_empty_name": "reject", "h_nul": "unspec", "h_ctl": "unspec",
    "h_ws_before_colon": "unspec", "h_obs_fold": "unspec", "h_bare_lf": "unspec", "h_bad_name_char": "unspec",
    "h_bare_cr_value": "unspec",
    # bodiless statuses / interim
    "i_cl": "either", "i_te": "unspec", "i_101": "unspec", "s204_cl0": "either", "s204_cln": "either",
    "s204_te": "unspec", "s304_cl": "accept", "head_cl": "accept", "head_te": "accept",
    # whole-stream
    "truncate": "ref", "extra_bytes": "accept",
}
MUT_NAMES = sorted(MUTATIONS)
GZ_VARIANTS = ["valid", "valid", "valid", "truncated", "truncated", "crc", "isize", "data", "bomb",
               "two_members", "garbage_tail", "empty", "case"]


def gen_body(rng, tier):
    n = rng.choice([0, 1, 2, 5, 17, 50, 99, 100, 101, 150, 300, 300, 1000, 2000]
                   + ([70000, 200000] if rng.random() < (0.02 if tier == "quick" else 0.05) else []))
    kind = rng.randrange(4)
    if kind == 0:
        return bytes(rng.choice(b"abcdefghij \n") for _ in range(min(n, 4000))) + b"z" * max(0, n - 4000)
    if kind == 1:
        unit = rng.choice([b"\r\n", b"0\r\n\r\n", b"HTTP/1.1 200 OK\r\n\r\n", b"\x00\xff", b"5\r\nhello\r\n"])
        return (unit * (n // len(unit) + 1))[:n]
    if kind == 2:
        return rng.randbytes(min(n, 4000)) + b"\x00" * max(0, n - 4000)
    return b"A" * n


def render_chunked(rng, body, mut):
    out = bytearray()
    pos = 0
    k = 0
    nchunks_hint = rng.choice([1, 2, 3, 8])
    bad_at = rng.randrange(3)
    while pos < len(body):
        n = min(len(body) - pos, rng.choice([1, 2, 5, 16, 100, 1000, max(1, len(body) // nchunks_hint), len(body)]))
        txt = format(n, rng.choice(["x", "X"])).encode()
        if mut == "chunk_upper_zeros":
            txt = b"000" + format(n, "X").encode()
        if k == bad_at or (len(body) - pos == n and k < bad_at):  # the chosen chunk, or the last one if there are fewer
            if mut == "chunk_bad_hex":
                txt = rng.choice([b"g", b"1g", b"zz"])
            elif mut == "chunk_neg":
                txt = rng.choice([b"-1", b"+" + txt])
            elif mut == "chunk_empty_size":
                txt = b""
            elif mut == "chunk_0x":
                txt = b"0x" + txt
            elif mut == "chunk_ws":
                txt = rng.choice([b" " + txt, txt + b" ", txt + b"\t"])
            elif mut == "chunk_ext":
                txt = txt + rng.choice([b";a=b", b";x", b' ; q="v"'])
        out += txt + CRLF + body[pos:pos + n]
        if mut == "chunk_no_crlf" and k == 0:
            out += rng.choice([b"XX", b"\n\n", b"\rX", b"0\r"])
        else:
            out += CRLF
        pos += n
        k += 1
    last = b"000" if mut == "chunk_upper_zeros" else b"0"
    if not body and mut in ("chunk_bad_hex", "chunk_neg", "chunk_empty_size", "chunk_0x", "chunk_ws"):
        last = {"chunk_bad_hex": b"g", "chunk_neg": b"-0", "chunk_empty_size": b"", "chunk_0x": b"0x0",
                "chunk_ws": b" 0"}[mut]
    if not body and mut == "chunk_ext":
        last = b"0;a=b"
    out += last + CRLF
    if mut == "chunk_trailer":
        out += b"X-Trailer: 1" + CRLF
    out += CRLF
    return bytes(out)


def gz_wire(rng, body, variant):
    """Returns (wire_bytes, coding_header_value)."""
    coding = b"gzip"
    lvl = rng.choice([1, 6, 9])
    full = gzip.compress(body, lvl, mtime=0)
    if variant == "valid":
        return full, coding
    if variant == "case":
        return full, rng.choice([b"GZIP", b"Gzip"])
    if variant == "truncated":
        where = rng.choice(["half", "trailer", "header", "any"])
        if where == "half":
            cut = len(full) // 2
        elif where == "trailer":
            cut = len(full) - rng.randint(1, 8)
        elif where == "header":
            cut = rng.randint(1, 10)
        else:
            cut = rng.randint(1, len(full) - 1)
        return full[:max(1, cut)], coding
    if variant == "crc":
        i = len(full) - 8 + rng.randrange(4)
        return full[:i] + bytes([full[i] ^ (1 << rng.randrange(8))]) + full[i + 1:], coding
    if variant == "isize":
        i = len(full) - 4 + rng.randrange(4)
        return full[:i] + bytes([full[i] ^ (1 << rng.randrange(8))]) + full[i + 1:], coding
    if variant == "data":
        if len(full) <= 19:
            return full[:-1], coding
        i = rng.randrange(10, len(full) - 8)
        return full[:i] + bytes([full[i] ^ 0x55]) + full[i + 1:], coding
    if variant == "bomb":
        return gzip.compress(b"\0" * rng.choice([101, 150, 5000, 200000]), 9, mtime=0), coding
    if variant == "two_members":
        return full + gzip.compress(b"second member " * rng.randint(1, 5), lvl, mtime=0), coding
    if variant == "garbage_tail":
        return full + rng.choice([b"JUNK", b"\0\0\0\0", b"\r\n"]), coding
    if variant == "empty":
        return b"", coding
    raise ValueError(variant)


def hdr_line(rng, name, value):
    a, b = rng.choice(OWS)
    return name + b":" + a + value + b + CRLF


def build_case(rng, tier):
    """Returns a picklable case dict with the stream and the generator's own knowledge of it."""
    method = "HEAD" if rng.random() < 0.12 else "GET"
    mut = rng.choice(MUT_NAMES) if rng.random() < 0.55 else None
    if mut in ("head_cl", "head_te"):
        method = "HEAD"
    elif mut and mut.split("_")[0] in ("cl", "te", "chunk"):
        method = "GET"
    if mut and mut.startswith("s204") or mut in ("s304_cl",):
        if method == "HEAD" and rng.random() < 0.7:
            method = "GET"
    notes = []
    out = bytearray()
    eol = b"\n" if mut == "h_bare_lf" else CRLF

    # ---- interim responses
    n_int = rng.choice([0, 0, 0, 0, 0, 1, 1, 2])
    if mut in ("i_cl", "i_te", "i_101") and n_int == 0:
        n_int = 1
    for i in range(n_int):
        code = rng.choice(INTERIM)
        if mut == "i_101" and i == 0:
            code = 101
        out += b"HTTP/1.1 %d %s" % (code, rng.choice([b"Continue", b"Early Hints", b""])) + eol
        if rng.random() < 0.4:
            out += b"Link: </style.css>; rel=preload" + eol
        if rng.random() < 0.12:
            # an interim head repeating a representation header of the final response; it has no body and says
            # nothing about the coding of the message that follows it
            out += b"Content-Encoding: " + rng.choice([b"gzip", b"gzip", b"GZIP"]) + eol
            if "gzip-label-on-interim" not in notes:
                notes.append("gzip-label-on-interim")
        if mut == "i_cl" and i == 0:
            out += b"Content-Length: %d" % rng.choice([0, 0, 3]) + eol
        if mut == "i_te" and i == 0:
            out += b"Transfer-Encoding: chunked" + eol
        out += eol
        if mut == "i_te" and i == 0 and rng.random() < 0.5:
            out += b"0\r\n\r\n"

    # ---- final response: status line
    version = b"HTTP/1.0" if (mut == "te_http10" or rng.random() < 0.1) else b"HTTP/1.1"
    code = rng.choice(CODES_BODY)
    if mut and mut.startswith("s204"):
        code = 204
    elif mut == "s304_cl":
        code = 304
    elif not mut and rng.random() < 0.12:
        code = rng.choice([204, 304])
    reason = rng.choice(REASONS)
    status = version + b" %d " % code + reason
    if mut == "st_http2":
        status = rng.choice([b"HTTP/2.0", b"HTTP/2", b"HTTP/0.9", b"HTTP/3.1"]) + b" %d " % code + reason
    elif mut == "st_http1":
        status = rng.choice([b"HTTP/1", b"HTTP/1.", b"HTTP/1.x", b"HTTP/1.11", b"HTTP/11.1"]) + b" %d " % code + reason
    elif mut == "st_lower":
        status = rng.choice([b"http/1.1", b"Http/1.1", b"HTTPS/1.1", b"ICY"]) + b" %d " % code + reason
    elif mut == "st_2digit":
        status = version + b" " + rng.choice([b"20", b"2", b""]) + b" " + reason
    elif mut == "st_4digit":
        status = version + b" " + rng.choice([b"2000", b"0200", b"200.0"]) + b" " + reason
    elif mut == "st_alpha":
        status = version + b" " + rng.choice([b"2x0", b"OK", b"-20", b"+20", b"2 0"]) + b" " + reason
    elif mut == "st_nosp":
        status = version + b"%d " % code + reason
    elif mut == "st_missing_reason_sp":
        status = version + b" %d" % code
    elif mut == "st_garbage":
        status = rng.choice([b"GET / HTTP/1.1", b"<html>", b"\x16\x03\x01\x02\x00", b" HTTP/1.1 200 OK",
                             b"HTTP/1.1  200 OK", b"HTTP/1.1\t200 OK"])
    elif mut == "st_bare_cr":
        status = status + b"\r"
    if mut == "st_leading_crlf":
        out += rng.choice([CRLF, CRLF + CRLF, b"\n"])
    out += status + eol

    # ---- framing decision
    bodiless = code in (204, 304) or method == "HEAD"
    body = gen_body(rng, tier)
    framing = rng.choice(["cl", "cl", "chunked", "chunked", "close"])
    if version == b"HTTP/1.0" and mut != "te_http10" and framing == "chunked":
        framing = "close"
    if mut and (mut.startswith("cl_") or mut == "te_cl_both"):
        framing = "cl"
    if mut and (mut.startswith("chunk_") or mut in ("te_case", "te_twice", "te_http10", "te_gzip_chunked")):
        framing = "chunked"
    if mut in ("te_gzip", "te_identity"):
        framing = rng.choice(["cl", "close"])
    gzv = None
    gz_bodiless = False
    if not bodiless and rng.random() < 0.35:
        gzv = rng.choice(GZ_VARIANTS)
    wire_body = body
    plain_body = body
    ce = None
    if gzv:
        wire_body, ce = gz_wire(rng, body, gzv)
    elif bodiless and rng.random() < 0.45:
        # a message that has no body (response to HEAD, 204, 304) but repeats the representation
        # headers of the GET response, Content-Encoding: gzip included (RFC 9110 9.3.2 / 15.4.5):
        # there is nothing to decode, the strict reader extracts an empty body
        ce = rng.choice([b"gzip", b"gzip", b"gzip", b"GZIP", b"Gzip"])
        gz_bodiless = True
    elif rng.random() < 0.05:
        ce = rng.choice([b"identity", b"br", b"deflate"])  # not decoded by the client: delivered as is
    if bodiless:
        wire_body = b""

    # ---- headers
    hdrs = []
    for _ in range(rng.choice([0, 1, 2, 3, 5])):
        hdrs.append(rng.choice(HDRS))
    if ce is not None and (not bodiless or gz_bodiless or rng.random() < 0.5):
        hdrs.insert(rng.randrange(len(hdrs) + 1), (b"Content-Encoding", ce))
    frame_hdrs = []
    if bodiless:
        if mut == "s204_cl0":
            frame_hdrs.append((b"Content-Length", b"0"))
        elif mut == "s204_cln":
            frame_hdrs.append((b"Content-Length", b"%d" % max(1, len(body))))
            wire_body = body or b"x"
            if rng.random() < 0.4:
                wire_body = b""
        elif mut == "s204_te":
            frame_hdrs.append((b"Transfer-Encoding", b"chunked"))
            wire_body = render_chunked(rng, body[:50], None) if rng.random() < 0.7 else b""
        elif mut in ("s304_cl", "head_cl") or (not mut and rng.random() < 0.5):
            frame_hdrs.append((b"Content-Length", b"%d" % rng.choice([0, 5, 12345])))
        elif mut == "head_te":
            frame_hdrs.append((b"Transfer-Encoding", b"chunked"))
        if method == "HEAD" and mut == "head_cl" and rng.random() < 0.3:
            wire_body = b"unexpected body after HEAD"  # extra bytes: not part of the response
    elif framing == "cl":
        n = len(wire_body)
        txt = b"%d" % n
        if mut == "cl_plus":
            txt = b"+" + txt
        elif mut == "cl_underscore":
            txt = (b"%d_0" % (n // 10)) if n >= 10 else b"0_%d" % n
        elif mut == "cl_hex":
            txt = rng.choice([b"0x%x" % n, b"%xh" % n, b"a"])
        elif mut == "cl_neg":
            txt = b"-" + txt
        elif mut == "cl_float":
            txt = txt + rng.choice([b".0", b"e0"])
        elif mut == "cl_empty":
            txt = b""
        elif mut == "cl_space_inside":
            txt = b"1 " + txt
        elif mut == "cl_leading_zeros":
            txt = b"00" + txt
        elif mut == "cl_list_equal":
            txt = txt + rng.choice([b", ", b",", b" , "]) + txt
        frame_hdrs.append((b"Content-Length", txt))
        if mut == "cl_conflict":
            frame_hdrs.append((b"Content-Length", b"%d" % (n + rng.choice([1, 2, 10]))))
            if rng.random() < 0.5:
                frame_hdrs.reverse()
        elif mut == "cl_dup_equal":
            frame_hdrs.append((b"Content-Length", txt))
        if mut == "te_cl_both":
            frame_hdrs.append((b"Transfer-Encoding", b"chunked"))
            if rng.random() < 0.5:
                frame_hdrs.reverse()
            if rng.random() < 0.5:
                wire_body = render_chunked(rng, wire_body, None)
        if mut in ("te_gzip", "te_identity"):
            frame_hdrs.append((b"Transfer-Encoding", b"gzip" if mut == "te_gzip" else b"identity"))
            frame_hdrs.pop(0)
    elif framing == "chunked":
        te = b"chunked"
        if mut == "te_case":
            te = rng.choice([b"Chunked", b"CHUNKED"])
        elif mut == "te_gzip_chunked":
            te = rng.choice([b"gzip, chunked", b"chunked, gzip", b"chunked;q=1", b"xchunked"])
        frame_hdrs.append((b"Transfer-Encoding", te))
        if mut == "te_twice":
            frame_hdrs.append((b"Transfer-Encoding", b"chunked"))
        wire_body = render_chunked(rng, wire_body, mut)
    else:  # close-delimited
        if mut in ("te_gzip", "te_identity"):
            frame_hdrs.append((b"Transfer-Encoding", b"gzip" if mut == "te_gzip" else b"identity"))
    for fh in frame_hdrs:
        hdrs.insert(rng.randrange(len(hdrs) + 1), fh)
    # keep relative order of duplicated framing headers as generated
    lines = [hdr_line(rng, k, v) for k, v in hdrs]
    inj = None
    if mut == "h_nocolon":
        inj = rng.choice([b"foo", b"X-A 1", b"garbage line here"]) + CRLF
    elif mut == "h_empty_name":
        inj = b": value" + CRLF
    elif mut == "h_nul":
        inj = b"X-Nul: a\x00b" + CRLF
    elif mut == "h_ctl":
        inj = b"X-Ctl: a" + rng.choice([b"\x01", b"\x7f", b"\x1f", b"\x0b"]) + b"b" + CRLF
    elif mut == "h_ws_before_colon":
        inj = rng.choice([b"X-Ws : 1", b"X-Ws\t: 1"]) + CRLF
    elif mut == "h_obs_fold":
        inj = b"X-Fold: a" + CRLF + rng.choice([b" ", b"\t"]) + b"b" + CRLF
    elif mut == "h_bad_name_char":
        inj = rng.choice([b"X(A): 1", b"X A: 1", b"X\xe9: 1", b'"X": 1', b"X@A: 1"]) + CRLF
    elif mut == "h_bare_cr_value":
        inj = b"X-Cr: a\rb" + CRLF
    if inj is not None:
        lines.insert(rng.randrange(len(lines) + 1), inj)
    if mut == "h_obs_fold" and rng.random() < 0.3:
        lines.insert(0, b" leading-fold" + CRLF)
    head = b"".join(lines)
    if eol != CRLF:
        head = head.replace(CRLF, eol)
    out += head + eol
    head_end = len(out)
    out += wire_body

    eof_mode = "close"
    if mut == "extra_bytes" and framing != "close":
        out += rng.choice([b"GARBAGE", b"HTTP/1.1 200 OK\r\nContent-Length: 1\r\n\r\nZ", b"\r\n", b"\0"])
    stream = bytes(out)
    if mut == "truncate" and len(stream) > 1:
        where = rng.choice(["any", "any", "head", "body", "last"])
        if where == "head":
            cut = rng.randint(1, max(1, head_end - 1))
        elif where == "body" and len(stream) > head_end + 1:
            cut = rng.randint(head_end, len(stream) - 1)
        elif where == "last":
            cut = len(stream) - rng.choice([1, 2, 3, 5])
        else:
            cut = rng.randint(1, len(stream) - 1)
        stream = stream[:max(1, cut)]
    elif rng.random() < 0.15:
        eof_mode = "hold"  # only used by run_case if the strict reader needs no EOF
    gl = MUTATIONS.get(mut, "accept") if mut else "accept"
    if gzv in ("two_members", "garbage_tail"):
        notes.append("gzip:" + gzv)
    if gz_bodiless:
        notes.append("gzip-label-on-bodiless")
    return {"method": method, "stream": stream, "eof": eof_mode, "mut": mut, "gen_label": gl,
            "gz": gzv, "framing": "none" if bodiless else framing, "code": code, "head_end": head_end,
            "cfg_seed": rng.getrandbits(32), "notes": notes}


def gen_cases(spec):
    rng = core.rng_for(spec["seed"], PROP, spec["shard"])
    for _ in range(spec["n"]):
        yield build_case(rng, spec["tier"])


def directed_cases():
    gz = gzip.compress(b"hello world " * 20, 6, mtime=0)
    half = gz[:len(gz) // 2]

    def case(stream, method="GET", eof="close", **kw):
        d = {"method": method, "stream": stream, "eof": eof, "mut": kw.pop("mut", "directed"),
             "gen_label": kw.pop("gen_label", "ref"), "gz": kw.pop("gz", None), "framing": kw.pop("framing", "cl"),
             "code": 200, "head_end": stream.find(b"\r\n\r\n") + 4, "cfg_seed": 7, "notes": ["directed"]}
        d.update(kw)
        return d

    # DESIGN §5: gzip body cut in half was accepted silently
    yield case(b"HTTP/1.1 200 OK\r\nContent-Encoding: gzip\r\nContent-Length: %d\r\n\r\n" % len(half) + half,
               gz="truncated")
    yield case(b"HTTP/1.1 200 OK\r\nContent-Encoding: gzip\r\nTransfer-Encoding: chunked\r\n\r\n%x\r\n" % (len(gz) - 3)
               + gz[:-3] + b"\r\n0\r\n\r\n", gz="truncated")
    # a highly compressible gzip body cut while the inflater still holds output (flush() returns data):
    # used to escape as ValueError, logged as an uncaught exception
    big = gzip.compress(b"\x00" * 200000, 9, mtime=0)
    dribble = {"cuts": "whole", "plan": "one", "stream_cb": True, "decompress": True, "max_body": None, "tmo": "none", "rs": 5}
    for cut in (60, 115, len(big) - 9):
        yield case(b"HTTP/1.1 200 OK\r\nContent-Encoding: gzip\r\nContent-Length: %d\r\n\r\n" % cut + big[:cut],
                   gz="truncated", force_cfgs=[dribble, dict(dribble, stream_cb=False, tmo="default")])
    # recorded witness (thorough tier, seed 3): truncated gzip body + a read schedule that leaves 512 bytes of
    # output inside the inflater at finish() -> flush() returned data -> ValueError logged as uncaught (fixed)
    import base64, os, pickle
    wpath = os.path.join(os.path.dirname(os.path.abspath(__file__)), "c08_directed.b64")
    yield pickle.loads(base64.b64decode(open(wpath).read()))
    # close-delimited body larger than max_body_size
    yield case(b"HTTP/1.1 200 OK\r\n\r\n" + b"x" * 250, framing="close")
    yield case(b"HTTP/1.0 200 OK\r\nContent-Type: text/plain\r\n\r\n" + b"y" * 101, framing="close")
    # a malformed final response after an interim one must not turn into a 1xx "success"
    yield case(b"HTTP/1.1 103 Early Hints\r\n\r\nHTTP/11.1 200 OK\r\nContent-Length: 1\r\n\r\nZ")
    yield case(b"HTTP/1.1 100 Continue\r\n\r\nHTTP/1.1 200 OK\r\nContent-Length: 2000\r\n\r\n" + b"q" * 2000)
    yield case(b"HTTP/1.1 100 Continue\r\n\r\nHTTP/1.1 200 OK\r\nContent-Length: 3\r\n\r\nabcEXTRA")
    # malformed head: fetch must fail, also when the timeouts are disabled
    yield case(b"HTTP/1.1 20 OK\r\nContent-Length: 0\r\n\r\n")
    yield case(b"HTTP/1.1 200 OK\r\nfoo\r\nContent-Length: 0\r\n\r\n")
    # corrupt gzip checksum, chunk data not followed by CRLF: rejected, and without an uncaught-exception log
    yield case(b"HTTP/1.1 200 OK\r\nContent-Encoding: gzip\r\nContent-Length: %d\r\n\r\n" % len(gz)
               + gz[:-8] + bytes([gz[-8] ^ 1]) + gz[-7:], gz="crc")
    yield case(b"HTTP/1.1 200 OK\r\nTransfer-Encoding: chunked\r\n\r\n3\r\nabcXX0\r\n\r\n")
    # sanity anchors (MUST-ACCEPT)
    yield case(b"HTTP/1.1 100 Continue\r\n\r\nHTTP/1.1 200 OK\r\nContent-Length: 5\r\n\r\nhello")
    yield case(b"HTTP/1.1 200 OK\r\nContent-Encoding: gzip\r\nContent-Length: %d\r\n\r\n" % len(gz) + gz, gz="valid")
    yield case(b"HTTP/1.1 200 OK\r\nContent-Length: 5\r\n\r\nhello", method="HEAD")
    yield case(b"HTTP/1.1 304 Not Modified\r\nContent-Length: 5\r\n\r\n", eof="hold")
    # messages without a body that repeat the representation headers of the gzip-coded GET response: nothing
    # to decode, the fetch succeeds with an empty body (round-3 seeded change C08d)
    both = [{"cuts": "whole", "plan": "none", "stream_cb": sc, "decompress": True, "max_body": mb, "tmo": "default", "rs": 3}
            for sc, mb in ((True, None), (False, 100))]
    rep_hdrs = b"Content-Encoding: gzip\r\nETag: \"abc\"\r\nContent-Length: %d\r\n\r\n" % len(gz)
    yield case(b"HTTP/1.1 200 OK\r\n" + rep_hdrs, method="HEAD", framing="none", notes=["directed", "gzip-label-on-bodiless"],
               force_cfgs=both)
    yield case(b"HTTP/1.1 304 Not Modified\r\n" + rep_hdrs, framing="none", code=304,
               notes=["directed", "gzip-label-on-bodiless"], force_cfgs=both)
    yield case(b"HTTP/1.1 204 No Content\r\nContent-Encoding: gzip\r\n\r\n", framing="none", code=204, eof="hold",
               notes=["directed", "gzip-label-on-bodiless"], force_cfgs=both)
    yield case(b"HTTP/1.1 200 OK\r\nContent-Encoding: GZIP\r\nTransfer-Encoding: chunked\r\n\r\n", method="HEAD",
               framing="none", notes=["directed", "gzip-label-on-bodiless"], force_cfgs=both)
    # found while widening that class: the gzip label of an interim head leaked into the final response, whose
    # identity-coded body was inflated -> 599 (fixes/C08-interim-content-encoding-leaks-into-final-response.patch)
    yield case(b"HTTP/1.1 103 Early Hints\r\nContent-Encoding: gzip\r\n\r\nHTTP/1.1 200 OK\r\nContent-Length: 5\r\n\r\nhello",
               notes=["directed", "gzip-label-on-interim"], force_cfgs=both)
    yield case(b"HTTP/1.1 100 Continue\r\nContent-Encoding: gzip\r\n\r\nHTTP/1.1 200 OK\r\nContent-Encoding: gzip\r\n"
               b"Content-Length: %d\r\n\r\n" % len(gz) + gz, gz="valid", notes=["directed", "gzip-label-on-interim"],
               force_cfgs=both)


# ------------------------------------------------------------------ oracle

class Expect:
    __slots__ = ("cls", "why", "code", "reason", "headers", "body", "hdr_skip", "gz_applied", "wire_len", "members")


def _gunzip(wire):
    """Returns ("ok", data, members) | ("reject", why, 0) | ("unspec", why, 0) | ("either", b"", 0).
    RFC 1952 2.2: a gzip stream is a series of members; all of them are decoded.  Bytes after a
    complete member that are not another complete member (padding, garbage) are UNSPECIFIED:
    decoders in the field differ and RFC 9110 does not say what a recipient does with them."""
    if not wire:
        return ("either", b"", 0)
    out = bytearray()
    rest = wire
    members = 0
    while rest:
        d = zlib.decompressobj(16 + zlib.MAX_WBITS)
        try:
            out += d.decompress(rest)
        except zlib.error as e:
            if members:
                return ("unspec", "bytes after a gzip member that are not a gzip member", 0)
            return ("reject", f"corrupt gzip: {e}", 0)
        if not d.eof:
            if members:
                return ("unspec", "bytes after a gzip member that are not a gzip member", 0)
            return ("reject", "truncated gzip stream", 0)
        members += 1
        rest = d.unused_data
    return ("ok", bytes(out), members)


def expectation(case, eof, decompress, max_body):
    """Strict-reader expectation for one configuration."""
    e = Expect()
    e.hdr_skip = set()
    e.gz_applied = False
    e.members = 0
    e.code = e.reason = e.headers = e.body = None
    e.wire_len = 0
    gl = case["gen_label"]
    try:
        resps, rest = ref.read_all_responses(case["stream"], [case["method"]], eof=eof)
    except ref.Reject as x:
        e.cls, e.why = "reject", f"strict reader: {x}"
        if gl in ("unspec",):
            e.cls = "unspec"
        if "1xx/204" in str(x):
            # RFC 9112 6.1: a *server* MUST NOT send it; 6.3 rule 1: the recipient delimits such
            # a message at the empty line "regardless of the header fields present".  Rejecting
            # is allowed, not required.
            e.cls, e.why = "unspec", "Transfer-Encoding on a 1xx or 204 response"
        return e
    except ref.Unspec as x:
        e.cls, e.why = "unspec", f"strict reader: {x}"
        return e
    except ref.Incomplete as x:
        e.cls, e.why = "reject", f"incomplete without EOF: {x}"
        return e
    if not resps:
        e.cls, e.why = "reject", "no final response before EOF"
        return e
    r = resps[0]
    e.cls, e.why = "accept", "strict reader accepted"
    if r.status == 101 or any(i.status == 101 for i in r.interim):
        e.cls, e.why = "unspec", "101 without an upgrade request"
        return e
    if r.status < 200:
        e.cls, e.why = "reject", "no final response"
        return e
    if gl == "unspec":
        e.cls, e.why = "unspec", f"generator label for mutation {case['mut']}"
        return e
    if getattr(r, "cl_on_bodiless", False) or any(getattr(i, "cl_on_bodiless", False) for i in r.interim):
        e.cls, e.why = "either", "Content-Length on a 1xx/204 response"
    if gl == "either" and e.cls == "accept":
        e.cls, e.why = "either", f"generator label for mutation {case['mut']}"
    cls_vals = r.get_all("content-length")
    if len(cls_vals) > 1 or any(b"," in v for v in cls_vals):
        if e.cls == "accept":
            e.cls, e.why = "either", "duplicated Content-Length"
        e.hdr_skip.add("content-length")
    e.code = r.status
    e.reason = r.reason
    e.headers = r.headers
    body = r.body
    e.wire_len = len(body)
    ces = r.get_all("content-encoding")
    if decompress and len(ces) == 1 and ces[0].lower() == b"gzip":
        e.hdr_skip.update(("content-encoding", "x-consumed-content-encoding"))
        if r.framing != "none":
            kind, val, members = _gunzip(body)
            if kind == "ok":
                body = val
                e.gz_applied = True
                e.members = members
            elif kind == "either":
                body = b""
                if e.cls == "accept":
                    e.cls, e.why = "either", "empty body labelled gzip"
            elif kind == "reject":
                e.cls, e.why = "reject", val
                return e
            else:
                e.cls, e.why = "unspec", val
                return e
    elif decompress and ces and any(b"gzip" in c.lower() for c in ces):
        e.cls, e.why = "unspec", "unusual Content-Encoding list containing gzip"
        return e
    e.body = body
    if max_body is not None:
        if len(body) > max_body:
            e.cls, e.why = "reject", "body larger than max_body_size"
        elif e.wire_len > max_body and e.cls == "accept":
            e.cls, e.why = "either", "encoded body larger than max_body_size, decoded body within it"
    return e


def norm_headers(pairs, skip):
    d = {}
    for k, v in pairs:
        k = (k.decode("latin-1") if isinstance(k, bytes) else k).lower()
        v = v.decode("latin-1") if isinstance(v, bytes) else v
        if k in skip:
            continue
        d.setdefault(k, []).append(v)
    return d


# ------------------------------------------------------------------ execution

def configs_for(case, tier):
    import random
    rng = random.Random(case["cfg_seed"])
    n = len(case["stream"])
    k = (3 if tier == "quick" else 5) + (1 if rng.random() < 0.5 else 0)
    out = [{"cuts": "whole", "plan": "none", "stream_cb": False, "decompress": True, "max_body": None, "tmo": "default"}]
    for extra in case.get("force_cfgs") or ():
        out.append(dict(extra))
    for i in range(k - 1):
        style = rng.choice(["whole", "random", "random", "pairs" if n <= 300 else "random",
                            "bytes" if n <= 400 else "random", "at:%d" % max(1, case["head_end"] - rng.choice([0, 1, 2, 3])),
                            "at:%d" % rng.randint(1, max(1, n - 1))])
        out.append({"cuts": style, "plan": rng.choice(["none", "none", "one" if n <= 3000 else "mix", "mix", "spurious"]),
                    "stream_cb": rng.random() < 0.4, "decompress": rng.random() < 0.7,
                    "max_body": rng.choice([None, None, 100]), "tmo": rng.choice(["default", "default", "none"]),
                    "rs": rng.getrandbits(30)})
    return out


class _Pending(Exception):
    pass


async def _scenario(case, cfgs, state, ctx):
    import random
    rig = clientrig.Rig()
    state["rig"] = rig
    cur = {}

    def responder(req):
        c = cur["cfg"]
        acts = []
        data = case["stream"]
        if c["cuts"] == "whole":
            acts.append(("send", data))
        else:
            acts.append(("segs", data, cuts_for(random.Random(c.get("rs", 1)), len(data), c["cuts"])))
        acts.append(("hold",) if cur["hold"] else ("close",))
        return acts

    origin = await rig.origin("http", "o.test", 80, responder)
    clients = {None: rig.client(), 100: rig.client(max_body_size=100)}
    fd0 = clientrig.fd_count()
    results = []
    for c in cfgs:
        # can this stream be served without closing?
        # The connection is kept open after the last byte only when the strict reader can
        # delimit the message without EOF and its verdict is pinned (otherwise a client that
        # legitimately reads on - e.g. treating 101 as interim - would just wait for us).
        hold = False
        if case["eof"] == "hold":
            try:
                ref.read_all_responses(case["stream"], [case["method"]], eof=False)
                hold = expectation(case, False, c["decompress"], c["max_body"]).cls in ("accept", "either")
            except (ref.Incomplete, ref.Reject, ref.Unspec):
                hold = False
        cur["cfg"], cur["hold"] = c, hold
        exp = expectation(case, not hold, c["decompress"], c["max_body"])
        chunks = []
        kw = {}
        if c["stream_cb"]:
            kw["streaming_callback"] = chunks.append
        if c["tmo"] == "none":
            kw["connect_timeout"] = 0
            kw["request_timeout"] = 0
        if c["plan"] != "none":
            rig.read_plans.append(read_plan_for(random.Random(c.get("rs", 1)), c["plan"], 200))
        req = HTTPRequest("http://o.test/s", method=case["method"], decompress_response=c["decompress"],
                          follow_redirects=False, **kw)
        n_before = len(rig.fetches)
        state["awaiting"] = (c, exp.cls, exp.why)
        try:
            resp = await clients[c["max_body"]].fetch(req, raise_error=False)
            out = ("ok", resp)
        except Exception as e:  # noqa: BLE001 - any failure is "fails with an error"
            out = ("err", e)
        state["awaiting"] = None
        # let late callbacks (double completion, late data) surface, far beyond every timeout
        await vloop.settle(2)
        rec = rig.fetches[n_before] if len(rig.fetches) > n_before else None
        results.append((c, exp, out, chunks, rec, hold))
        if len(origin.requests) == 0:
            state["note"] = "origin saw no request"
    import asyncio
    await asyncio.sleep(100.0)
    state["open_streams"] = [a for s, a in rig.open_streams() if s.socket is not None]
    await rig.close()
    await vloop.settle(2)
    state["fd_delta"] = clientrig.fd_count() - fd0
    return results


def run_case(case, ctx):
    cfgs = configs_for(case, ctx.tier)
    state = {"awaiting": None}
    nontriv = (bool(case["mut"]) or len(case["stream"]) > case["head_end"] or case["stream"].count(b"HTTP/1.") > 1
               or "gzip-label-on-bodiless" in case["notes"])
    ctx.mark((case["method"], case["stream"], case["eof"]), nontriv)
    with LogMon() as lm:
        try:
            results = vloop.run(_scenario, case, cfgs, state, ctx, collect=(ctx.evaluations % 50 == 0))
        except vloop.Quiescent:
            results = None
        finally:
            if state.get("rig") is not None:
                state["rig"].cleanup_sync()
    if results is None:
        c, cls, why = state["awaiting"] or ({}, "?", "?")
        ctx.count("oracle_evals")
        ctx.violation(f"pending/fetch-never-completes/{cls}",
                      "fetch() future still pending when the virtual loop went quiescent (no timer, no I/O left): "
                      "the fetch never completes",
                      {"config": c, "class": cls, "why": why, "stream": case["stream"][:600], "method": case["method"]})
        return
    if ctx.evaluations <= 400 or case["mut"] in (None,):
        ctx.sample({"method": case["method"], "stream": case["stream"][:160], "mut": case["mut"], "gz": case["gz"],
                    "class": results[0][1].cls})
    outcomes = {}
    for c, exp, out, chunks, rec, hold in results:
        judge(case, c, exp, out, chunks, rec, ctx)
        key = (c["decompress"], c["max_body"], hold)
        summ = _summary(out, chunks)
        if ("not a gzip member" in exp.why or exp.members > 1
                or (case.get("gz") in ("two_members", "garbage_tail") and c["decompress"])):
            # also when the strict reader stopped before the body (UNSPECIFIED head): the generator knows the body
            # is a multi-member gzip stream, whose segmentation-dependent decoding is the recorded known finding
            ctx.count("segmentation_exempt_gzip_after_member")
            continue
        outcomes.setdefault(key, []).append((summ, c, repr(out[1])[:200] if out[0] == "err" else None))
    # segmentation independence (also for classes whose accept/reject verdict is not pinned)
    for key, lst in outcomes.items():
        if len(lst) > 1:
            ctx.count("segmentation_evals")
            first = lst[0]
            for other in lst[1:]:
                if other[0] != first[0]:
                    ctx.violation("segmentation/outcome-differs",
                                  "the same response stream gave different fetch outcomes under different segmentations / read plans",
                                  {"a": first, "b": other, "stream": case["stream"][:600], "method": case["method"],
                                   "why": [r[1].why for r in results][:1]})
                    break
    unc = [r for r in lm.uncaught() if not _harness_noise(r)]
    ctx.count("log_evals")
    if unc:
        classes = sorted({r[1].cls for r in results})
        exc = unc[0]["exc"] or "log"
        ctx.violation(f"uncaught-log/{exc}",
                      "an uncaught-exception report was logged while fetching this response stream",
                      {"records": unc[:3], "stream": case["stream"][:600], "method": case["method"],
                       "classes": classes, "whys": sorted({r[1].why for r in results})[:4]})
    ctx.count("leak_evals")
    if state.get("open_streams"):
        ctx.violation("leak/client-stream-open-after-completion",
                      "a client stream was still open 100 virtual seconds after every fetch had completed",
                      {"open": state["open_streams"], "stream": case["stream"][:600]})


def _harness_noise(rec):
    return rec["logger"] == "asyncio" and "clientrig" in rec["msg"]


def _why_key(why):
    w = why.split(":")[0]
    return "".join(ch if ch.isalnum() else "-" for ch in w)[:40]


def _summary(out, chunks):
    if out[0] == "err":
        return ("err",)
    r = out[1]
    return ("ok", r.code, core.h64(r.body + b"".join(chunks)))


def judge(case, c, exp, out, chunks, rec, ctx):
    wit = {"config": c, "class": exp.cls, "why": exp.why, "method": case["method"],
           "stream": case["stream"][:700], "stream_len": len(case["stream"]), "mut": case["mut"], "gz": case["gz"]}
    ctx.count("runs")
    ctx.count("class_" + exp.cls)
    gl = case["gen_label"]
    if gl in ("accept", "reject") and exp.cls in ("accept", "reject") and gl != exp.cls and not case["gz"] \
            and c["max_body"] is None:
        ctx.count(f"genlabel_{gl}_but_{exp.cls}:{case['mut']}")
    ctx.seen("oracle_branches", (exp.cls, _why_key(exp.why)))
    if c["stream_cb"]:
        ctx.count("streaming_runs")
    # exactly one completion
    ctx.count("oracle_evals")
    if rec is None or rec["completions"] != 1:
        ctx.violation("completion/count-not-one", "fetch_impl callback ran a number of times different from one",
                      dict(wit, completions=None if rec is None else rec["completions"]))
    # size limit: whatever the verdict, nothing larger than max_body_size is ever delivered
    limit = c["max_body"] if c["max_body"] is not None else BIG
    streamed = sum(len(x) for x in chunks)
    delivered = streamed + (len(out[1].body) if out[0] == "ok" else 0)
    ctx.count("limit_evals")
    if c["max_body"] is not None:
        ctx.count("limit_evals_small")
    if delivered > limit:
        fr = case["framing"]
        ctx.violation(f"limit/delivered-body-exceeds-max_body_size/{fr if fr in ('close', 'cl', 'chunked') else 'other'}"
                      + ("/gzip" if exp.gz_applied or case["gz"] else ""),
                      "the client delivered more body bytes than max_body_size",
                      dict(wit, delivered=delivered, limit=limit, outcome=out[0]))
        return
    if exp.members > 1 and exp.cls != "unspec":
        # several gzip members: the complete body is the concatenation (or an error if that is over the limit)
        ctx.count("gzip_multi_member_runs")
        got = None if out[0] == "err" else (b"".join(chunks) if c["stream_cb"] else out[1].body)
        want = None if exp.cls == "reject" else exp.body
        if got != want and not (exp.cls == "either" and got is None):
            ctx.violation("gzip/multi-member-body-not-fully-decoded",
                          "a gzip body consisting of several members (RFC 1952 2.2) is not decoded completely: the "
                          "members after the first are dropped silently, or the response fails, depending on segmentation",
                          dict(wit, outcome=out[0], got_len=None if got is None else len(got),
                               want="error (over max_body_size)" if want is None else len(want)))
        else:
            ctx.count("gzip_multi_member_ok")
        return
    if exp.cls == "unspec":
        ctx.count("unspecified_accepted" if out[0] == "ok" else "unspecified_rejected")
        ctx.count("unspec:" + _why_key(exp.why))
        return
    if exp.cls == "reject":
        if out[0] == "ok":
            r = out[1]
            ctx.violation("reject/" + _reject_key(exp.why, case),
                          "fetch succeeded on a stream the strict reader rejects",
                          dict(wit, got_code=r.code, got_body_len=len(r.body) + streamed, got_body=(r.body or b"".join(chunks))[:80]))
        else:
            ctx.count("reject_err")
        return
    if out[0] == "err":
        if exp.cls == "either":
            ctx.count("either_rejected")
            return
        if "gzip-label-on-interim" in case["notes"] and c["decompress"] and not exp.gz_applied and exp.body:
            ctx.violation("accept/fetch-failed/interim-content-encoding-applied-to-final-response",
                          "an interim (1xx) response carried Content-Encoding: gzip; the identity-coded body of the final "
                          "response was then run through the gzip decoder and the fetch failed",
                          dict(wit, error=repr(out[1])[:300], want_code=exp.code, want_body_len=len(exp.body)))
            return
        ctx.violation("accept/fetch-failed/" + _accept_key(case, exp),
                      "fetch failed on a stream the strict reader accepts",
                      dict(wit, error=repr(out[1])[:300], want_code=exp.code, want_body_len=len(exp.body)))
        return
    r = out[1]
    ctx.count("accept_ok" if exp.cls == "accept" else "either_accepted")
    if exp.gz_applied:
        ctx.count("gzip_decoded")
    if "gzip-label-on-bodiless" in case["notes"] and c["decompress"]:
        ctx.count("bodiless_gzip_label_ok")
    got_body = b"".join(chunks) if c["stream_cb"] else r.body
    if c["stream_cb"] and r.body:
        ctx.violation("streaming/body-also-buffered", "with a streaming_callback the response body is not empty", wit)
    if r.code != exp.code:
        ctx.violation("accept/status-differs", "status code differs from the strict reader's",
                      dict(wit, got=r.code, want=exp.code))
        return
    if got_body != exp.body:
        short = "shorter" if len(got_body) < len(exp.body) else ("longer" if len(got_body) > len(exp.body) else "same-length")
        ctx.violation(f"accept/body-differs/{short}/" + _accept_key(case, exp),
                      "body differs from what the strict reader extracts",
                      dict(wit, got_len=len(got_body), want_len=len(exp.body), got=got_body[:80], want=exp.body[:80]))
        return
    gh = norm_headers(list(r.headers.get_all()), exp.hdr_skip)
    wh = norm_headers(exp.headers, exp.hdr_skip)
    ctx.count("header_evals")
    if gh != wh:
        ctx.violation("accept/headers-differ", "header multimap differs from the strict reader's",
                      dict(wit, got=gh, want=wh))
        return
    if exp.reason:
        ctx.count("reason_evals")
        if r.reason != exp.reason.decode("latin-1"):
            ctx.violation("accept/reason-differs", "reason phrase differs", dict(wit, got=r.reason, want=exp.reason))


def _reject_key(why, case):
    if "max_body_size" in why:
        return "over-max_body_size/" + case["framing"]
    if "gzip" in why:
        return "gzip/" + ("truncated" if "truncated" in why else "corrupt")
    w = why.replace("strict reader: ", "")
    for pat, key in (("EOF", "truncated-message"), ("Content-Length", "content-length"),
                     ("Transfer-Encoding", "transfer-encoding"), ("transfer coding", "transfer-encoding"),
                     ("chunk", "chunk-syntax"), ("status line", "status-line"), ("header line", "header-line"),
                     ("NUL", "header-line"), ("bare CR", "bare-cr"), ("final response", "no-final-response"),
                     ("incomplete", "incomplete-without-eof")):
        if pat in w:
            return key
    return "other"


def _accept_key(case, exp):
    k = case["framing"] if case["framing"] in ("cl", "chunked", "close", "none") else "x"
    if exp.gz_applied:
        k += "+gzip"
    elif "gzip-label-on-bodiless" in case["notes"]:
        k += "+gzip-label"
    if case["method"] == "HEAD":
        k += "+head"
    if case["stream"].count(b"HTTP/1.") > 1:
        k += "+interim"
    return k
