"""C46 — locale helpers: friendly_number grouping and relative format_date.

friendly_number (en, en_US): the result must match -?D{1,3}(,DDD)* and read back as the integer.
format_date: `now` is pinned from the harness by replacing the module attribute
`tornado.locale.datetime` with a proxy whose datetime.now() returns a fixed instant (what
mock.patch does in locale_test); the date is handed over as aware/naive datetime, int or float.
Two oracles on the returned English phrase:
  * a date more than 60 s in the future is never rendered "N seconds/minutes/hours ago" / "yesterday ..."
  * in "N <unit>s ago" for a date that is not in the future, N is elapsed/unit rounded to a
    nearest integer.  datetime arithmetic has whole-second fields; whether the sub-second part of
    the elapsed time takes part in the rounding is treated as UNSPECIFIED unless
    GATE_SUBSECOND_TRUNCATION is set (see report): N must be a nearest integer of e/unit for some
    e in [floor(elapsed), ceil(elapsed)] seconds.
"""
from __future__ import annotations

import datetime
import re
import types

from vf import core

core.use_repo()
import tornado.locale as tlocale  # noqa: E402

PROP = "C46"
META = {
    "level": "exploration",
    "technique": "direct oracles (regex + exact integer arithmetic) on the returned English phrases with `now` pinned from the harness; boundary-dense offset generator",
    "level_text": "friendly_number is executed on 0, +-10^k+-1 (k<=30), digit-count-targeted and random integers of both signs; format_date on offsets from -10 y to +10 y sampled densely around 0, 50 s, 60 s, 50 min, 1 h, 24 h and whole-day multiples (+-1 us/1 s/30 s), for aware/naive datetimes, int and float timestamps, four gmt offsets and all flag combinations, with several pinned `now` instants; every returned phrase is judged by regex and exact microsecond arithmetic.",
    "level_note": "Only the English phrases of the built-in en_US/en locale are parsed; near-future dates (<= 60 s ahead) rendered as past and sub-second rounding of the seconds count are UNSPECIFIED; absolute formats are only checked for not being relative-past phrases.",
    "design_ref": "DESIGN.md §4 C46",
    "engine": "oracle",
}
RULE = ("cases are integers (friendly_number) and (now instant, offset in microseconds, input representation, gmt_offset, "
        "relative/shorter/full_format flags) (format_date); non-trivial: |n| >= 1000, resp. offset != 0; distinct by the case")
FLOORS = {"quick": 40000, "thorough": 1500000}
ASSUMPTIONS = [
    "tornado.locale.datetime may be replaced by a proxy with a pinned now() (harness-side, like mock.patch)",
    "English phrase table: 'N second(s)/minute(s)/hour(s) ago', 'yesterday', 'yesterday at T'",
    "a date 0..60 s in the future may be rendered as past (documented clock-skew rounding)",
]
REQUIRED_COUNTERS = ["oracle_evals", "number_evals", "negative_numbers", "future_gt_60s_evals", "relative_phrase_evals",
                     "phrase_seconds", "phrase_minutes", "phrase_hours"]

# If True the seconds count must be the nearest integer of the exact (microsecond) elapsed time.
GATE_SUBSECOND_TRUNCATION = False

UTC = datetime.timezone.utc
NOWS = [
    datetime.datetime(2024, 3, 10, 12, 30, 15, 250000, tzinfo=UTC),
    datetime.datetime(2023, 12, 31, 23, 59, 59, 999999, tzinfo=UTC),
    datetime.datetime(2024, 3, 1, 0, 0, 0, 0, tzinfo=UTC),
    datetime.datetime(2031, 7, 4, 3, 0, 30, 1, tzinfo=UTC),
]


class _PinnedDateTime(datetime.datetime):
    pinned = NOWS[0]

    @classmethod
    def now(cls, tz=None):
        n = cls.pinned
        return n if tz is None else n.astimezone(tz)


_PROXY = types.SimpleNamespace(datetime=_PinnedDateTime, timedelta=datetime.timedelta,
                               timezone=datetime.timezone, date=datetime.date, time=datetime.time)
tlocale.datetime = _PROXY

LOCALES = {"en_US": tlocale.Locale.get("en_US"), "en": tlocale.CSVLocale("en", {})}

SEC = 10 ** 6
DAY = 86400 * SEC


def shards(tier, seed):
    if tier == "quick":
        return [{"kind": "num", "n": 12000, "j": j} for j in range(2)] + \
               [{"kind": "date", "n": 12000, "j": j} for j in range(6)]
    return [{"kind": "num", "n": 250000, "j": j} for j in range(4)] + \
           [{"kind": "date", "n": 250000, "j": j} for j in range(12)]


def gen_num(rng):
    r = rng.random()
    if r < 0.1:
        k = rng.randint(0, 30)
        n = 10 ** k + rng.choice([-1, 0, 1])
    elif r < 0.5:
        digits = rng.randint(1, 24)
        n = rng.randint(10 ** (digits - 1), 10 ** digits - 1)
    elif r < 0.6:
        n = rng.randint(0, 1200)
    else:
        n = rng.getrandbits(rng.randint(1, 100))
    if rng.random() < 0.5:
        n = -n
    return ("num", rng.choice(["en_US", "en"]), n)


ANCHORS = [0, 1, SEC, 30 * SEC, 49 * SEC, 50 * SEC, 51 * SEC, 59 * SEC, 60 * SEC, 61 * SEC, 89 * SEC, 90 * SEC,
           150 * SEC, 49 * 60 * SEC, 50 * 60 * SEC, 51 * 60 * SEC, 3600 * SEC, 5400 * SEC, 9000 * SEC, 23 * 3600 * SEC,
           DAY - SEC, DAY, DAY + SEC, DAY + 30 * SEC, DAY + 59 * SEC, DAY + 60 * SEC, DAY + 61 * SEC, 2 * DAY,
           2 * DAY + 10 * SEC, 5 * DAY, 7 * DAY + 45 * SEC, 30 * DAY + 5 * SEC, 333 * DAY, 334 * DAY, 365 * DAY + 20 * SEC]
JITTER = [0, 0, 1, -1, SEC, -SEC, 500000, -500000, 999999, -999999, 30 * SEC, -30 * SEC]


def gen_date(rng):
    r = rng.random()
    if r < 0.45:
        off = rng.choice(ANCHORS) + rng.choice(JITTER)
    elif r < 0.6:
        off = rng.randint(0, 20) * DAY + rng.randint(0, 125 * SEC)       # whole days + up to ~2 minutes
    elif r < 0.8:
        off = int(10 ** rng.uniform(0, 14.5))                            # log-uniform up to ~10 years in us
    else:
        off = rng.randint(0, 2 * DAY)
    if rng.random() < 0.5:
        off = -off
    kind = rng.choice(["aware_utc", "aware_tz", "naive", "int", "float"])
    tz = rng.choice([330, -720, 840, -1]) if kind == "aware_tz" else 0
    return ("date", rng.choice(["en_US", "en_US", "en"]), rng.randrange(len(NOWS)), off, kind, tz,
            rng.choice([0, 0, -720, 330, 840]), rng.random() < 0.8, rng.random() < 0.3, rng.random() < 0.15)


def gen_cases(spec):
    rng = core.rng_for(spec["seed"], PROP, f"{spec['kind']}:{spec['j']}")
    g = gen_num if spec["kind"] == "num" else gen_date
    for _ in range(spec["n"]):
        yield g(rng)


def directed_cases():
    yield ("num", "en_US", -123456)
    yield ("num", "en_US", -123)
    yield ("num", "en", -100)
    yield ("num", "en_US", 1234567)
    # date one day + 30 s in the future
    yield ("date", "en_US", 0, DAY + 30 * SEC, "aware_utc", 0, 0, True, False, False)
    yield ("date", "en_US", 0, 3 * DAY + 59 * SEC, "naive", 0, 0, True, False, False)
    yield ("date", "en_US", 0, -150 * SEC - 900000, "aware_utc", 0, 0, True, False, False)


NUM_RE = re.compile(r"-?[0-9]{1,3}(?:,[0-9]{3})*")
AGO_RE = re.compile(r"([0-9]+) (second|minute|hour)(s?) ago")
UNIT_US = {"second": SEC, "minute": 60 * SEC, "hour": 3600 * SEC}
EPOCH = datetime.datetime(1970, 1, 1, tzinfo=UTC)


def run_num(case, ctx):
    _, code, n = case
    ctx.count("number_evals")
    ctx.count("oracle_evals")
    if n < 0:
        ctx.count("negative_numbers")
    try:
        s = LOCALES[code].friendly_number(n)
    except Exception as e:  # noqa: BLE001
        ctx.violation(f"friendly_number/raises-{type(e).__name__}", "friendly_number raised", {"n": n, "error": repr(e)})
        return
    ok_shape = isinstance(s, str) and NUM_RE.fullmatch(s) is not None
    if not ok_shape:
        if isinstance(s, str) and n < 0 and s.startswith("-,") and NUM_RE.fullmatch("-" + s[2:]):
            mech = "friendly_number/negative-sign-grouped-as-a-digit"
        else:
            mech = "friendly_number/bad-grouping"
        ctx.violation(mech, "friendly_number result is not -?D{1,3}(,DDD)*", {"n": n, "locale": code, "got": s})
        return
    if int(s.replace(",", "")) != n:
        ctx.violation("friendly_number/reads-back-as-another-integer", "grouped form does not read back as the integer",
                      {"n": n, "locale": code, "got": s})


def build_input(now, off, kind, tz):
    inst = now + datetime.timedelta(microseconds=off)
    if kind == "aware_utc":
        return inst, inst
    if kind == "aware_tz":
        z = datetime.timezone(datetime.timedelta(minutes=tz)) if tz != -1 else \
            datetime.timezone(datetime.timedelta(hours=-3, minutes=-30), "NST")
        return inst.astimezone(z), inst
    if kind == "naive":
        return inst.replace(tzinfo=None), inst
    if kind == "int":
        t = (inst - EPOCH) // datetime.timedelta(seconds=1)
        return t, EPOCH + datetime.timedelta(seconds=t)
    t = (inst - EPOCH).total_seconds()
    return t, datetime.datetime.fromtimestamp(t, UTC)   # the instant this float denotes (stdlib rounding to us)


def run_date(case, ctx):
    _, code, now_i, off, kind, tz, gmt_offset, relative, shorter, full_format = case
    now = NOWS[now_i]
    _PinnedDateTime.pinned = now
    arg, inst = build_input(now, off, kind, tz)
    delta = inst - now
    delta_us = delta.days * DAY + delta.seconds * SEC + delta.microseconds
    ctx.count("oracle_evals")
    try:
        out = LOCALES[code].format_date(arg, gmt_offset=gmt_offset, relative=relative, shorter=shorter,
                                        full_format=full_format)
    except Exception as e:  # noqa: BLE001
        ctx.violation(f"format_date/raises-{type(e).__name__}", "format_date raised for a date within 10 years of now",
                      {"case": case, "arg": repr(arg), "error": repr(e)})
        return
    if not isinstance(out, str):
        ctx.violation("format_date/not-a-str", "format_date did not return a str", {"case": case, "got": repr(out)})
        return
    m = AGO_RE.fullmatch(out)
    yesterday = out == "yesterday" or out.startswith("yesterday at ")
    wit = {"case": case, "now": now.isoformat(), "date": inst.isoformat(), "arg": repr(arg),
           "offset_seconds": delta_us / SEC, "got": out}
    if delta_us > 60 * SEC:
        ctx.count("future_gt_60s_evals")
        if not relative:
            if m or yesterday:
                ctx.violation("future-date-described-as-past/non-relative-mode",
                              "relative=False produced a relative past phrase for a future date", wit)
            return
        if m or yesterday:
            if delta_us >= DAY and delta_us % DAY < 60 * SEC:
                mech = "future-date-described-as-past/whole-days-ignored"
            else:
                mech = "future-date-described-as-past/other"
            ctx.violation(mech, "a date more than a minute in the future is described as a relative past time", wit)
        return
    if m is None:
        ctx.count("phrase_yesterday" if yesterday else "phrase_absolute")
        return
    ctx.count("phrase_" + m.group(2) + "s")
    if delta_us > 0:
        ctx.count("near_future_rendered_as_past_unspecified")
        return
    ctx.count("relative_phrase_evals")
    n, unit = int(m.group(1)), UNIT_US[m.group(2)]
    elapsed = -delta_us
    if GATE_SUBSECOND_TRUNCATION:
        lo = hi = elapsed
    else:
        lo = elapsed - elapsed % SEC
        hi = lo if elapsed % SEC == 0 else lo + SEC
        if not (2 * abs(n * unit - elapsed) <= unit):
            ctx.count("subsecond_truncation_observed_unspecified")
    if 2 * (lo - n * unit) <= unit and 2 * (n * unit - hi) <= unit:
        return
    wit["elapsed_seconds"] = elapsed / SEC
    wit["elapsed_in_unit"] = elapsed / unit
    if elapsed >= DAY and 2 * abs(n * unit - elapsed % DAY) <= unit + 2 * SEC:
        mech = "relative-number/whole-days-ignored"
    else:
        mech = f"relative-number/{m.group(2)}s-not-nearest-integer"
    ctx.violation(mech, "the number in the relative phrase is not the elapsed time in that unit rounded to a nearest integer", wit)


def run_case(case, ctx):
    nontrivial = abs(case[2]) >= 1000 if case[0] == "num" else case[3] != 0
    new = ctx.mark(case, nontrivial)
    if new and nontrivial and ctx.evaluations % 1999 == 11:
        ctx.sample(list(case))
    if case[0] == "num":
        run_num(case, ctx)
    else:
        run_date(case, ctx)
