"""C34 — Condition and Event wake exactly the right waiters.

History + executable model on the virtual-time loop.  Condition: FIFO of waiters,
notify(n) wakes the first min(n, live) live waiters with True, an expired wait
resolves False and is skipped by later notifies.  Event: flag + waiter set, a wait
completes iff the flag is set at the call or set() is called before its deadline,
else TimeoutError; after every step the number of live timer handles in the loop and
the event's waiter set must equal the number of still-pending waits (no residue).
"""
from __future__ import annotations

import asyncio
import gc

from vf import core, vloop
from vf.logmon import LogMon
from vf.refs import synchist as sh

core.use_repo()
from tornado import locks  # noqa: E402

PROP = "C34"
META = {
    "level": "exploration",
    "technique": "reference-model monitor over wait/notify/set/clear/advance histories on a virtual-time loop "
                 "(exhaustive small scope + seeded random long histories), wait-future outcome vector and timer residue "
                 "compared at every settle point",
    "level_text": "Every history (exhaustive to a bounded length, plus long random histories crossing the 100-timeout "
                  "waiter garbage collection) is executed on the real Condition / Event under virtual time and on "
                  "sequential models; outcomes of all wait futures (pending, True, False / completed, TimeoutError), "
                  "is_set(), and for Event the residue (live timer handles, waiter set) are compared after every step.",
    "level_note": "Trusts the two sequential models in this file and the virtual loop; deadlines are on a half-grid so no "
                  "expiry ties with an operation. Histories that cancel a wait future are executed but not gated (the "
                  "statement's schedules do not include cancellation).",
    "design_ref": "DESIGN.md §4 C34",
    "engine": "vloop",
}
RULE = ("cases are (class, op history, settle pattern); Condition ops: wait(None|timedelta|absolute|0), notify(0..3), "
        "notify_all, advance, burst of zero-timeout waits; Event ops: wait(...), set, clear, advance; cancel(i) only in "
        "ungated histories; exhaustive by model-guided DFS to a fixed length plus seeded random histories; non-trivial = "
        "at least one wait that blocked and was later woken (notify/set) or expired; distinct by the case tuple")
FLOORS = {"quick": 20000, "thorough": 200000}
ASSUMPTIONS = ["sequential condition/event models are correct", "single-threaded use on one loop",
               "a deadline never coincides with another operation (half-grid deadlines)",
               "cancellation of wait futures is outside the statement (executed, counted, not gated)"]
REQUIRED_COUNTERS = ["oracle_evals", "cond_woken", "cond_timeouts", "event_completed_by_set", "event_timeouts",
                     "event_residue_evals", "notify_with_fewer_live_than_n"]

EXH_TMS = [None, ("rel", 0), ("abs", 1), ("zero",)]
RAND_TMS = [None, None, ("rel", 0), ("rel", 1), ("abs", 0), ("abs", 1), ("rel", 2), ("zero",), ("tdzero",), ("past",)]
EXH_LEN = {"cond": {"quick": 6, "thorough": 7}, "event": {"quick": 6, "thorough": 8}}
MAX_WAITS = {"cond": 4, "event": 3}


def EXHAUSTIVE(tier):
    return ("Condition: all histories of length %d over {wait(None|timedelta 0.5|absolute +1.5|0), notify(1), notify(2), "
            "notify_all, advance} with <= 4 waits, and of length %d adding notify(0), notify(3); Event: all histories of "
            "length %d over {wait x4 forms, set, clear, advance} with <= 3 waits; every prefix checked; each also at "
            "length-1 with no settle between ops"
            % (EXH_LEN["cond"][tier], EXH_LEN["cond"][tier] - 1, EXH_LEN["event"][tier]))


# --------------------------------------------------------------------------
# models

class CondModel:
    kind = "cond"

    def __init__(self):
        self.G = 0
        self.w = []          # [exp, state]  state: P | True | False | C

    def clone(self):
        m = CondModel()
        m.G = self.G
        m.w = [list(x) for x in self.w]
        return m

    def exp_of(self, tm):
        if tm is None:
            return None
        return self.G if tm[0] in sh.ZERO_FORMS else self.G + tm[1] + 1

    def wait(self, tm):
        self.w.append([self.exp_of(tm), "P"])

    def live(self):
        return sum(1 for x in self.w if x[1] == "P")

    def notify(self, n):
        woken = 0
        for x in self.w:
            if woken >= n:
                break
            if x[1] == "P":
                x[1] = True
                woken += 1
        return woken

    def cancel(self, i):
        if self.w[i][1] == "P":
            self.w[i][1] = "C"
            return True
        return False

    def settle(self):
        n = 0
        for x in self.w:
            if x[1] == "P" and x[0] is not None and x[0] <= self.G:
                x[1] = False
                n += 1
        return n

    def apply(self, op):
        k = op[0]
        if k == "wait":
            self.wait(op[1])
        elif k == "notify":
            self.notify(op[1])
        elif k == "notify_all":
            self.notify(len(self.w))
        elif k == "cancel":
            self.cancel(op[1])
        elif k == "adv":
            self.G += 1
        elif k == "burst":
            for _ in range(op[1]):
                self.wait(("zero",))
        self.settle()

    def vector(self):
        return [x[1] for x in self.w]

    def pending_timed(self):
        return sum(1 for x in self.w if x[1] == "P" and x[0] is not None)


class EventModel(CondModel):
    kind = "event"

    def __init__(self):
        super().__init__()
        self.flag = False    # states: P | "done" | "T" | C

    def clone(self):
        m = EventModel()
        m.G, m.flag = self.G, self.flag
        m.w = [list(x) for x in self.w]
        return m

    def wait(self, tm):
        if self.flag:
            self.w.append([None, "done"])
        else:
            self.w.append([self.exp_of(tm), "P"])

    def set(self):
        n = 0
        self.flag = True
        for x in self.w:
            if x[1] == "P":
                x[1] = "done"
                n += 1
        return n

    def settle(self):
        n = 0
        for x in self.w:
            if x[1] == "P" and x[0] is not None and x[0] <= self.G:
                x[1] = "T"
                n += 1
        return n

    def apply(self, op):
        k = op[0]
        if k == "set":
            self.set()
        elif k == "clear":
            self.flag = False
        elif k == "is_set":
            pass
        else:
            return super().apply(op)
        self.settle()


def cond_alpha(full):
    def alpha(m):
        ops = []
        if len(m.w) < MAX_WAITS["cond"]:
            ops += [("wait", tm) for tm in EXH_TMS]
        ops += [("notify", 1), ("notify", 2), ("notify_all",)]
        if full:
            ops += [("notify", 0), ("notify", 3)]
        if m.pending_timed():
            ops.append(("adv",))
        return ops
    return alpha


def event_alpha(m):
    ops = []
    if len(m.w) < MAX_WAITS["event"]:
        ops += [("wait", tm) for tm in EXH_TMS]
    ops += [("set",), ("clear",)]
    if m.pending_timed():
        ops.append(("adv",))
    return ops


TIE_OPS = ("notify", "notify_all", "set", "clear")


def may_skip_settle(op):
    if op[0] == "wait":
        return not sh.needs_settle(op[1])
    return op[0] in ("notify", "notify_all", "set", "clear", "cancel")


def rand_history(rng, kind, n, with_cancel):
    m = CondModel() if kind == "cond" else EventModel()
    ops, sync = [], []
    if kind == "cond" and rng.random() < 0.5:
        op = ("burst", rng.choice([99, 100, 101]))
        ops.append(op)
        m.apply(op)
    for _ in range(n):
        r = rng.random()
        pend = [i for i, x in enumerate(m.w) if x[1] == "P"]
        if r < 0.40:
            op = ("wait", rng.choice(RAND_TMS))
        elif r < 0.55:
            op = ("adv",)
        elif with_cancel and r < 0.65 and m.w:
            op = ("cancel", rng.choice(pend) if pend and rng.random() < 0.8 else rng.randrange(len(m.w)))
        elif kind == "cond":
            op = rng.choice([("notify", 0), ("notify", 1), ("notify", 1), ("notify", 2), ("notify", 3), ("notify_all",),
                             ("burst", 3)])
        else:
            op = rng.choice([("set",), ("set",), ("clear",), ("clear",), ("is_set",)])
        m.apply(op)
        ops.append(op)
        if rng.random() < 0.35 and may_skip_settle(op):
            sync.append(len(ops) - 1)
    return (kind, tuple(ops), tuple(sync))


# --------------------------------------------------------------------------

def shards(tier, seed):
    out = []
    Lc, Le = EXH_LEN["cond"][tier], EXH_LEN["event"][tier]
    nb = 10 if tier == "quick" else 16
    for b in range(nb):
        out.append({"kind": "exh", "cls": "cond", "full": False, "bucket": b, "nb": nb, "maxlen": Lc, "sync": False})
    for b in range(3):
        out.append({"kind": "exh", "cls": "cond", "full": True, "bucket": b, "nb": 3, "maxlen": Lc - 1, "sync": False})
    out.append({"kind": "exh", "cls": "cond", "full": False, "bucket": 0, "nb": 1, "maxlen": Lc - 1, "sync": True})
    nb = 6 if tier == "quick" else 12
    for b in range(nb):
        out.append({"kind": "exh", "cls": "event", "full": False, "bucket": b, "nb": nb, "maxlen": Le, "sync": False})
    out.append({"kind": "exh", "cls": "event", "full": False, "bucket": 0, "nb": 1, "maxlen": Le - 1, "sync": True})
    nbt = 4 if tier == "quick" else 8
    for b in range(nbt):
        out.append({"kind": "exh", "cls": "cond", "full": False, "bucket": b, "nb": nbt, "maxlen": Lc - 1, "sync": False, "tie": True})
    out.append({"kind": "exh", "cls": "event", "full": False, "bucket": 0, "nb": 1, "maxlen": Le - 1, "sync": False, "tie": True})
    k = 6 if tier == "quick" else 12
    n = 3000 if tier == "quick" else 300000
    for j in range(k):
        out.append({"kind": "rand", "n": n // k, "maxlen": 24 if tier == "quick" else 40, "j": j})
    return out


def gen_cases(spec):
    if spec["kind"] == "exh":
        cls = spec["cls"]
        alpha = cond_alpha(spec["full"]) if cls == "cond" else event_alpha
        mk = CondModel if cls == "cond" else EventModel
        for idx, p in enumerate(sh.prefixes(alpha, mk, 2)):
            if idx % spec["nb"] != spec["bucket"]:
                continue
            for hist in sh.leaves(alpha, mk(), p, spec["maxlen"]):
                sync = tuple(i for i, op in enumerate(hist[:-1]) if may_skip_settle(op)) if spec["sync"] else ()
                if spec.get("tie"):
                    if not any(hist[i][0] == "adv" and hist[i + 1][0] in TIE_OPS for i in range(len(hist) - 1)):
                        continue
                    yield (cls, hist, (), True)
                else:
                    yield (cls, hist, sync)
    else:
        rng = core.rng_for(spec["seed"], PROP, spec["j"])
        for _ in range(spec["n"]):
            h = rand_history(rng, rng.choice(["cond", "event"]), rng.randint(4, spec["maxlen"]), rng.random() < 0.25)
            if rng.random() < 0.3 and not any(op[0] == "cancel" for op in h[1]):
                h = (h[0], h[1], (), True)
            yield h


def directed_cases():
    # a deadline and a notify in the same loop iteration (timer first): the timed-out waiter must not be counted
    yield ("cond", (("wait", ("rel", 0)), ("wait", None), ("adv",), ("notify", 1)), (), True)
    yield ("cond", (("wait", ("rel", 0)), ("wait", ("rel", 1)), ("wait", None), ("adv",), ("notify", 1), ("adv",), ("notify", 1)), (), True)
    yield ("event", (("wait", ("rel", 0)), ("adv",), ("set",)), (), True)
    yield ("cond", (("wait", ("rel", 0)), ("wait", None), ("wait", None), ("adv",), ("notify", 2), ("notify", 1)), ())
    yield ("cond", (("burst", 100), ("wait", None), ("wait", ("zero",)), ("wait", None), ("notify", 1), ("notify_all",)), ())
    yield ("event", (("wait", ("rel", 0)), ("set",), ("clear",), ("wait", ("abs", 1)), ("adv",), ("adv",), ("set",)), (1,))


# --------------------------------------------------------------------------

_ncases = 0


def view(kind, f):
    s = sh.fstate(f)
    if isinstance(s, tuple):
        return s[1] if kind == "cond" else "done"
    return s


def name(s):
    return {True: "woken-True", False: "timeout-False", "done": "completed", "T": "TimeoutError", "P": "pending",
            "C": "cancelled", None: "result-None"}.get(s, "error-" + str(s)[2:] if isinstance(s, str) else "result-" + repr(s))


async def _drive(case, ctx, lm, pos):
    kind, ops, sync = case[0], case[1], case[2]
    tie_mode = len(case) > 3 and bool(case[3])
    sync = set(sync)
    skip = set()
    loop = asyncio.get_event_loop()
    lm.attach_loop(loop)
    clock = sh.Clock()
    obj = locks.Condition() if kind == "cond" else locks.Event()
    m = CondModel() if kind == "cond" else EventModel()
    futs = []
    gated = True
    stats = {"blocked": 0, "woken": 0, "expired": 0}

    def mismatch(mech, what, wit):
        if gated:
            ctx.violation(mech, what, wit)
        else:
            ctx.count("unspecified_cancel_history_disagree")
        return False

    def compare(step, i):
        ctx.count("oracle_evals" if gated else "unspecified_cancel_history_evals")
        want = m.vector()
        got = [view(kind, f) for f in futs]
        if got != want:
            j = next(k for k in range(len(want)) if got[k] != want[k])
            own = "own" if (step[0] == "wait" and j == len(want) - 1) else "other"
            return mismatch(f"{kind}:{step[0]}/{own}:{name(want[j])}->{name(got[j])}",
                            f"after {step[0]} wait future #{j} of the {kind} is {name(got[j])} but the sequential model says "
                            f"{name(want[j])}",
                            {"class": kind, "step_index": i, "step": step, "got": got, "want": want, "grid_time": m.G})
        if kind == "event":
            if obj.is_set() != m.flag:
                return mismatch("event:is_set/flag", "is_set() differs from the model's flag",
                                {"step": step, "got": obj.is_set(), "want": m.flag})
            ctx.count("event_residue_evals" if gated else "unspecified_cancel_history_evals")
            live = clock.live_timers()
            if live != m.pending_timed():
                return mismatch("event:residue/live-timer-handles" + ("-more" if live > m.pending_timed() else "-fewer"),
                                "number of live timer handles in the loop differs from the number of pending timed waits",
                                {"step_index": i, "step": step, "live_timers": live, "pending_timed_waits": m.pending_timed()})
            ws = getattr(obj, "_waiters", None)
            if ws is not None:
                if len(ws) != m.live():
                    return mismatch("event:residue/waiter-set", "Event._waiters holds entries for waits that are finished "
                                    "(or misses pending ones)",
                                    {"step_index": i, "step": step, "len_waiters": len(ws), "pending_waits": m.live()})
            else:
                ctx.count("event_waiter_set_not_observable")
        return True

    def real_sync(step):
        if step[0] == "notify":
            obj.notify(step[1])
        elif step[0] == "notify_all":
            obj.notify_all()
        elif step[0] == "set":
            obj.set()
        elif step[0] == "clear":
            obj.clear()

    def model_sync(step):
        if step[0] == "notify":
            stats["woken"] += m.notify(step[1])
        elif step[0] == "notify_all":
            stats["woken"] += m.notify(len(m.w))
        elif step[0] == "set":
            stats["woken"] += m.set()
        elif step[0] == "clear":
            m.flag = False

    for i, step in enumerate(ops):
        k = step[0]
        pos[:] = [i, step]
        if i in skip:
            continue
        if (tie_mode and k == "adv" and i + 1 < len(ops) and ops[i + 1][0] in TIE_OPS
                and sum(1 for x in m.w if x[1] == "P" and x[0] is not None and x[0] == m.G + 1) == 1):
            # Same-iteration placement: run the next (synchronous) operation inside the loop iteration in
            # which the single deadline of this window fires, right after the timer callback. For the
            # sequential model this is exactly "adv; op" (expiry first, then the op).
            live = sorted((h for h in loop._scheduled if not h._cancelled), key=lambda h: h._when)
            if live:
                nxt = ops[i + 1]
                box = {}

                def tie_cb(nxt=nxt, box=box):
                    try:
                        real_sync(nxt)
                    except Exception as e:  # surfaced below as a finding
                        box["err"] = e
                    box["ran"] = loop.time()
                loop.call_at(live[0]._when + 5e-10, tie_cb)
                skip.add(i + 1)
                m.G += 1
                await clock.advance()
                await vloop.settle()
                stats["expired"] += m.settle()
                model_sync(nxt)
                stats["expired"] += m.settle()
                ctx.count("tie_ops_same_iteration_as_expiry")
                if "err" in box:
                    raise box["err"]
                if "ran" not in box:
                    raise RuntimeError("harness: tie callback did not run")
                pos[:] = [i + 1, nxt]
                if not compare(("tie:" + nxt[0],) + tuple(nxt[1:]), i + 1):
                    return None
                continue
        if k == "wait" or k == "burst":
            for _ in range(step[1] if k == "burst" else 1):
                tm = ("zero",) if k == "burst" else step[1]
                nb = len(m.w)
                m.wait(tm)
                if m.w[nb][1] == "P":
                    stats["blocked"] += 1
                futs.append(obj.wait(clock.arg(tm)) if tm is not None else obj.wait())
        elif k == "notify":
            if m.live() < step[1]:
                ctx.count("notify_with_fewer_live_than_n")
            stats["woken"] += m.notify(step[1])
            obj.notify(step[1])
        elif k == "notify_all":
            stats["woken"] += m.notify(len(m.w))
            obj.notify_all()
        elif k == "set":
            stats["woken"] += m.set()
            obj.set()
        elif k == "clear":
            m.flag = False
            obj.clear()
        elif k == "is_set":
            pass
        elif k == "cancel":
            gated = False
            ctx.count("unspecified_cancel_ops")
            m.cancel(step[1])
            futs[step[1]].cancel()
        elif k == "adv":
            m.G += 1
            await clock.advance()
        if i in sync:
            continue
        await vloop.settle()
        stats["expired"] += m.settle()
        if not compare(step, i):
            return None
    return stats, gated



async def drive(case, ctx, lm):
    """Any exception escaping an operation of the object under test is a finding, not a harness error."""
    import traceback
    pos = [None, ("setup",)]
    try:
        return await _drive(case, ctx, lm, pos)
    except Exception as e:
        ctx.violation(f"{case[0] if isinstance(case[0], str) else case[0][0]}:{pos[1][0]}/raises-{type(e).__name__}",
                      f"operation {pos[1][0]} raised {type(e).__name__} out of the public API",
                      {"step_index": pos[0], "step": pos[1], "err": repr(e), "traceback": traceback.format_exc()[-1500:]})
        return None


def run_case(case, ctx):
    global _ncases
    _ncases += 1
    with LogMon() as lm:
        try:
            res = vloop.run(drive, case, ctx, lm, collect=False)
        except vloop.Quiescent:
            ctx.violation("harness/quiescent", "virtual loop went idle inside the driver", None)
            return
        ctx.count("log_checks")
        bad = lm.uncaught()
        if bad:
            r = bad[0]
            ctx.violation(f"log/{r['logger']}-{r['exc'] or 'error'}",
                          "uncaught-error record while running a condition/event history", {"records": bad[:3]})
            return
    if _ncases % 400 == 0:
        gc.collect()
    if res is None:
        return
    stats, gated = res
    kind = case[0]
    if gated:
        if kind == "cond":
            ctx.count("cond_woken", stats["woken"])
            ctx.count("cond_timeouts", stats["expired"])
        else:
            ctx.count("event_completed_by_set", stats["woken"])
            ctx.count("event_timeouts", stats["expired"])
    nontriv = gated and stats["blocked"] >= 1 and (stats["woken"] + stats["expired"]) >= 1
    ctx.mark(case, nontriv)
    if nontriv:
        ctx.sample({"class": kind, "ops": [list(o) for o in case[1]], "nosettle_after": list(case[2])}, limit=3)
