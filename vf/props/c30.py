"""C30 — form bodies are parsed losslessly; untrusted bodies fail cleanly.

The oracle is an independent *encoder* (vf/refs/formenc.py): a form is generated, encoded
(urlencoded or multipart/form-data), handed to the real `parse_body_arguments`, and the
resulting dictionaries are compared with the form the body was built from.  For every other
body only the safety half is demanded (success or HTTPInputError).  ParseMultipartConfig
limits are probed at n-1 / n / n+1.
"""
from __future__ import annotations

from vf import core

core.use_repo()
from tornado import httputil  # noqa: E402
from tornado.httputil import (HTTPHeaders, HTTPInputError, ParseBodyConfig,  # noqa: E402
                              ParseMultipartConfig, parse_body_arguments,
                              parse_multipart_form_data)

from vf.refs import formenc as fe  # noqa: E402

PROP = "C30"
META = {
    "level": "exploration",
    "technique": "independent form encoder as oracle (encode -> real parser -> compare), byte mutations for the "
                 "clean-failure half, limit values at n-1/n/n+1",
    "level_text": "Generated forms (0-6 fields/files; names, filenames and contents over an adversarial alphabet; uploads with and "
                  "without a declared Content-Type mixed in every order, plain fields with a Content-Type of their own) are "
                  "encoded by an independent urlencoded / multipart writer whose boundary is verified absent from all "
                  "content; the real parse_body_arguments must return exactly those fields and files. Single-byte "
                  "mutations, truncations, arbitrary bodies and content-type variants must succeed or raise "
                  "HTTPInputError. max_parts and max_part_header_size are probed one below, at and one above the "
                  "form's own size. For an upload without a declared type the reported content_type must equal what the "
                  "parser reports for the same part alone (no dependence on the other parts).",
    "level_note": "Trusts the 200-line encoder (RFC 7578/2046 writer, RFC 2045 quoted-string, RFC 2231/5987 ext-value, "
                  "RFC 2231 section 3 continuations and section 4.1 continuations with charset information, sections "
                  "cut at character boundaries, numbered 0.. contiguously, regular sections of a charset-carrying "
                  "parameter ASCII only). urlencoded names are compared as bytes (Tornado documents that keys are "
                  "latin-1 str). Empty names, empty filenames, parameter-name case variants, malformed RFC 2231 "
                  "continuations (gaps, duplicates, both name*= and name*0=) and header sizes between the three "
                  "readings of 'header size' are executed but not gated.",
    "design_ref": "DESIGN.md §4 C30",
    "engine": "oracle",
}
RULE = ("forms of 0-6 parts over an adversarial alphabet (quotes, backslashes, ';', '=', CR/LF, NUL, non-BMP, "
        "boundary-like '--' runs, all byte values) encoded with random valid choices (percent-encoding, parameter form "
        "token/quoted-string/RFC 2231 ext-value/RFC 2231 continuations (1-13 regular sections, or charset-carrying "
        "with regular and extended sections mixed; in or out of order, interleaved between name and filename), "
        "header case, boundary alphabet/quoting, preamble/epilogue); mutations: every "
        "single-byte edit of short bodies, truncations, random bytes, content-type variants; limits at n-1/n/n+1, each delivered by config=, by set_parse_body_config() "
        "(global default, also after replacing an earlier global configuration) and to parse_multipart_form_data called "
        "directly with config= or relying on the global default. "
        "A lossless case is non-trivial if it has >= 1 part whose name, filename or value is not a plain token; a "
        "mutation/limit case always is. Distinct by (content-type, body, config).")
FLOORS = {"quick": 8000, "thorough": 800000}
ASSUMPTIONS = [
    "the reference encoder emits only valid encodings (its boundary-absence and count assertions hold)",
    "urlencoded field names are compared as bytes: Tornado documents that keys are latin-1 decoded str",
    "which content_type a multipart file part without Content-Type gets is unspecified; only that it is the same as for "
    "that part parsed alone (does not depend on the other parts of the form) is demanded",
    "'header size' of a part may be read with or without the terminating CRLFs: sizes in that 4-byte window are not gated",
]
REQUIRED_COUNTERS = ["oracle_evals", "lossless_url", "lossless_mp", "safety_evals", "limit_parts_evals", "limit_direct_evals",
                     "limit_route_direct_global", "limit_route_direct_global2", "limit_route_global2", "limit_route_direct_kw",
                     "limit_header_evals", "mp_form_quoted", "mp_form_ext", "mp_form_token", "mp_form_cont",
                     "mp_form_contx", "mp_fnform_cont", "mp_fnform_contx", "mp_files", "untyped_upload_after_typed_part",
                     "untyped_upload_before_typed_part", "mp_field_with_content_type"]

# ---------------------------------------------------------------------------
# generators

NAME_ATOMS = ["a", "b", "name", "x1", "F", "é", "ü", "漢", "\U0001F600", '"', "\\", ";", "=", " ", "'", "%",
              "*", ",", ":", "/", "(", ")", "<", ">", "@", "[", "]", "?", "&", "+", "-", "--", ".", "_", "~",
              "\r", "\n", "\r\n", "\t", "\x00", "\x01", "\x7f", "%22", "%0D%0A", '\\"', "\\\\", '""', "utf-8''x",
              "name=", "filename=", "; filename=\"x\"", "form-data"]
PLAIN_ATOMS = ["a", "b", "name", "x1", "F", "field", "0", "Z"]
VALUE_ATOMS = [b"", b"v", b"value", b"\r\n", b"\r", b"\n", b"--", b"-", b"\r\n--", b"--\r\n", b"\r\n\r\n", b"\x00",
               b"\xff", b"\xc3\xa9", b"\xc3", b"=", b"&", b"+", b"%", b"%41", b"%zz", b";", b" ", b'"', b"\\",
               b"Content-Disposition: form-data; name=\"x\"", b"a=b&c=d"]
CTYPES = ["text/plain", "application/octet-stream", "text/plain; charset=utf-8", "image/png", "a/b",
          "application/x-www-form-urlencoded", "multipart/mixed; boundary=zz", "text/html;charset=\"x y\""]


def gen_name(rng, plain_p=0.3):
    if rng.random() < plain_p:
        return rng.choice(PLAIN_ATOMS)
    n = rng.choice([1, 1, 2, 2, 3, 4, 6])
    s = "".join(rng.choice(NAME_ATOMS) for _ in range(n))
    return s or "a"


def gen_value(rng):
    r = rng.random()
    if r < 0.15:
        return b""
    if r < 0.3:
        return bytes(rng.randrange(256) for _ in range(rng.choice([1, 2, 5, 17, 64])))
    n = rng.choice([1, 1, 2, 3, 5])
    return b"".join(rng.choice(VALUE_ATOMS) for _ in range(n))


def gen_form(rng, maxparts=6, files=True):
    n = rng.choice([0, 1, 1, 2, 2, 3, 4, 6]) if maxparts >= 6 else rng.randint(1, maxparts)
    names = [gen_name(rng) for _ in range(max(1, n // 2 + 1))]
    parts = []
    # some forms are mostly uploads, half of them without a declared type (typed and untyped uploads in every order)
    heavy = files and n >= 2 and rng.random() < 0.15
    for _ in range(n):
        name = rng.choice(names) if rng.random() < 0.6 else gen_name(rng)
        if files and rng.random() < (0.4 if not heavy else 0.85):
            ct = rng.choice(CTYPES) if rng.random() < (0.8 if not heavy else 0.5) else None
            parts.append(fe.Part(name, gen_value(rng), filename=gen_name(rng, 0.2), ctype=ct))
        elif files and rng.random() < 0.12:
            # a plain field may carry a Content-Type of its own (RFC 7578 section 4.4); it stays a field
            parts.append(fe.Part(name, gen_value(rng), ctype=rng.choice(CTYPES)))
        else:
            parts.append(fe.Part(name, gen_value(rng)))
    return parts


def tup(p):
    """Picklable description of an encoded part."""
    return (p.name, p.filename, p.ctype, p.value, p.header_block, p.name_form, p.fn_form)


def expect_of(parts):
    """parts: list of tup(). Returns the (arguments, files) the form denotes."""
    args, files = {}, {}
    for name, filename, ctype, value, _hb, _nf, _ff in parts:
        if filename is None:
            args.setdefault(name, []).append(value)
        else:
            files.setdefault(name, []).append((filename, ctype, value))
    return args, files


def feat(s):
    """Coarse, stable feature label of a name/filename (used in mechanism keys, never the data itself)."""
    if len(s) >= 2 and s[0] == '"' and s[-1] == '"':
        return "dquote-wrapped"
    if '"' in s or "\\" in s:
        return "has-dquote-or-backslash"
    return "other"


def culprit(t):
    """Label of the first parameter of a part that carries a notable feature."""
    name, filename, _ct, _v, _hb, nform, fform = t
    for val, form in ((name, nform), (filename, fform)):
        if val is not None and feat(val) != "other":
            return f"{form}:{feat(val)}"
    return f"{nform}:other" if filename is None else f"{nform}+{fform}:other"


def gen_lossless_mp(rng, variant):
    parts = gen_form(rng)
    preamble = epilogue = b""
    classes = []
    if variant == "preamble":
        preamble = rng.choice([b"\r\n", b"This is a multi-part message in MIME format.\r\n", b"x\r\n\r\ny\r\n",
                               b"preamble\r\n"])
        classes.append("preamble")
    r = rng.random()
    if r < 0.5:
        epilogue = b"\r\n"
    elif r < 0.6:
        epilogue = b"\r\nepilogue text\r\n"
        classes.append("epilogue")
    ct, body, boundary = fe.enc_multipart(parts, rng, preamble=preamble, epilogue=epilogue)
    unspec = []
    if any(p.name == "" for p in parts):
        unspec.append("empty_name")
    if any(p.filename == "" for p in parts):
        unspec.append("empty_filename")
    return {"k": "mp", "ct": ct, "body": body, "parts": [tup(p) for p in parts], "classes": classes,
            "unspec": unspec, "boundary": boundary, "cfg": None}


def gen_lossless_url(rng):
    n = rng.choice([0, 1, 1, 2, 3, 4, 6])
    names = [gen_name(rng).encode("utf-8") for _ in range(max(1, n // 2 + 1))]
    pairs = []
    for _ in range(n):
        nm = rng.choice(names) if rng.random() < 0.6 else (
            gen_name(rng).encode("utf-8") if rng.random() < 0.9 else bytes(rng.randrange(256) for _ in range(3)))
        pairs.append((nm, gen_value(rng)))
    body = fe.enc_urlencoded(pairs, rng, rng.choice(["min", "all", "mix", "mix"]))
    args = {}
    for nm, v in pairs:
        args.setdefault(nm, []).append(v)
    ct = rng.choice(["application/x-www-form-urlencoded", "application/x-www-form-urlencoded",
                     "application/x-www-form-urlencoded; charset=UTF-8",
                     "application/x-www-form-urlencoded;charset=utf-8"])
    return {"k": "url", "ct": ct, "body": body, "args": args, "files": {}, "classes": [], "unspec": [], "cfg": None}


BAD_CTS = ["multipart/form-dataxyz; boundary=b", "multipart/form-data", "multipart/form-data; boundary=",
           "multipart/form-data; boundary", "multipart/form-data; boundary=\"", "multipart/form-data; boundary=\"\"",
           "multipart/form-data; Boundary=b", "Multipart/Form-Data; boundary=b", "multipart/form-data; boundary=é",
           "multipart/form-data; boundary=b; boundary=c", "multipart/form-data;;;=", "multipart/form-data; charset=b",
           "application/x-www-form-urlencodedxyz", "application/json", "", "text/plain",
           "multipart/form-data; boundary=\udcff", "multipart/form-data; boundary=--", "multipart/form-data; boundary=-"]


HOSTILE_CD = [
    "form-data; name*=utf-8''a; name*0=b", "form-data; name*0=a; name*=utf-8''b", "form-data; name*1=a",
    "form-data; name*0*=utf-8''%ff; name*1=b", "form-data; name*=unknown-charset''x", "form-data; name*=utf-8''%ff%fe",
    "form-data; name*=''", "form-data; name*='", "form-data; name*=", "form-data; name", "form-data; =",
    'form-data; name="', 'form-data; name="\\', "form-data;;;;", "form-data; name*99999999999999999999999999=a",
    "form-data; name*-1=a", "form-data; name*0x1=a", "form-data; name*=utf-8'en-\u00e9'x", "; name=a", "",
    "form-data; name=a; name=b", "FORM-DATA; NAME=a", "form-data ; name = a", "form-data; name*0*=''a; name*1*=%zz",
    "form-data; name*=utf-16''%00a", "form-data; name*=utf-8''a; name*=utf-8''b", "attachment; name=a",
    "form-data; name=\"a\"b\"", "form-data; name*2=a; name*0=b", "form-data; name**=a", "form-data; *=a",
]


def gen_safety(rng, spec):
    """Yields safety cases derived from one valid body."""
    kind = rng.random()
    if kind < 0.55:
        # small valid multipart body and its single-byte edits
        parts = gen_form(rng, maxparts=2)
        for p in parts:
            p.value = p.value[:6]
            p.name = p.name[:4] or "a"
            if p.filename is not None:
                p.filename = p.filename[:4] or "f"
        hbs = [fe.build_part_headers(q, rng) for q in parts]
        blobs = hbs + [q.value for q in parts]
        bsel = rng.choice([None, "b", "1234", "z"])
        if bsel is not None and any(bsel.encode() in blob for blob in blobs):
            bsel = None
        ct, body, boundary = fe.enc_multipart(parts, rng, epilogue=rng.choice([b"", b"\r\n"]),
                                              boundary=bsel, header_blocks=hbs)
        positions = range(len(body)) if len(body) <= 160 else sorted(rng.sample(range(len(body)), 160))
        repl = [0x00, 0x0a, 0x0d, 0x22, 0x2d, 0x3b, 0x3d, 0x5c, 0x80, 0xff, 0x2a, 0x25, 0x27]
        for i in positions:
            for _ in range(spec.get("edits_per_pos", 2)):
                r = rng.random()
                if r < 0.6:
                    b2 = body[:i] + bytes([rng.choice(repl) if rng.random() < 0.8 else rng.randrange(256)]) + body[i + 1:]
                elif r < 0.8:
                    b2 = body[:i] + body[i + 1:]
                else:
                    b2 = body[:i] + bytes([rng.choice(repl)]) + body[i:]
                yield {"k": "safety", "ct": ct, "body": b2, "boundary": boundary, "hdr": None, "cfg": None}
        for cut in sorted(set([0, 1, 2, len(body) // 2, len(body) - 1, len(body) - 2, len(body) - 4] +
                              [rng.randrange(len(body) + 1) for _ in range(6)])):
            if 0 <= cut <= len(body):
                yield {"k": "safety", "ct": ct, "body": body[:cut], "boundary": boundary, "hdr": None, "cfg": None}
        for bad in rng.sample(BAD_CTS, 5):
            yield {"k": "safety", "ct": bad, "body": body, "boundary": boundary, "hdr": None, "cfg": None}
        yield {"k": "safety", "ct": ct, "body": body, "boundary": boundary, "hdr": "gzip", "cfg": None}
        yield {"k": "safety", "ct": ct, "body": body, "boundary": boundary, "hdr": None, "cfg": (False, 100, 10240)}
        yield {"k": "safety", "ct": ct, "body": body, "boundary": boundary, "hdr": None,
               "cfg": (True, rng.choice([-1, 0, 1]), rng.choice([-1, 0, 1, 5]))}
    elif kind < 0.75:
        # arbitrary bytes under a multipart content type
        toks = [b"--b", b"--b--", b"\r\n", b"\r\n\r\n", b"Content-Disposition: form-data; name=\"a\"",
                b"Content-Disposition: form-data", b"Content-Disposition:", b"content-disposition: form-data; name=a; filename=f",
                b"Content-Type: text/plain", b"name*=utf-8''%ff", b"name*0=a; name*1=b", b"name*=bogus'x", b"name*=''",
                b"\xff\xfe", b"\x00", b"x", b"; ", b"\"", b"\\", b"=", b"form-data; name*=utf-8'", b": ", b"\t", b" ",
                b"Content-Disposition: form-data; name=\"a\"; name*=x''%zz", b"Content-Disposition: form-data; name*=unknown-charset''x",
                b"Content-Disposition: form-data; name*1=a", b"Content-Disposition: form-data; name*99999999999999999999=a"]
        for _ in range(40):
            body = b"".join(rng.choice(toks) for _ in range(rng.randint(0, 12)))
            ct = rng.choice(["multipart/form-data; boundary=b", "multipart/form-data; boundary=\"b\"",
                             "multipart/form-data; boundary=b; charset=x"] + BAD_CTS[:4])
            yield {"k": "safety", "ct": ct, "body": body, "boundary": "b", "hdr": None, "cfg": None}
    elif kind < 0.9:
        # well-framed multipart whose Content-Disposition lines are hostile
        for _ in range(30):
            parts = []
            for _ in range(rng.randint(1, 3)):
                cd = rng.choice(HOSTILE_CD)
                if rng.random() < 0.3:
                    cd += rng.choice(["; filename=f", "; filename*=utf-8''%ff", "; filename*0=a; filename*=b"])
                line = b"Content-Disposition: " + cd.encode("utf-8")
                if rng.random() < 0.3:
                    line += b"\r\nContent-Type: " + rng.choice([b"text/plain", b"\xff", b"", b"a\tb"])
                parts.append(b"--b\r\n" + line + b"\r\n\r\nv\r\n")
            body = b"".join(parts) + b"--b--" + rng.choice([b"", b"\r\n"])
            yield {"k": "safety", "ct": "multipart/form-data; boundary=b", "body": body, "boundary": "b",
                   "hdr": None, "cfg": None}
    else:
        toks = [b"a", b"=", b"&", b"%", b"%4", b"%zz", b"%41", b"+", b";", b"\xff", b"\x00", b"\r\n", b"&&", b"==",
                b"%C3%A9", b"\xc3\xa9", b" ", b"%00", b"%u00e9"]
        for _ in range(40):
            body = b"".join(rng.choice(toks) for _ in range(rng.randint(0, 14)))
            ct = rng.choice(["application/x-www-form-urlencoded", "application/x-www-form-urlencoded; charset=x",
                             "application/x-www-form-urlencodedxyz"])
            yield {"k": "safety", "ct": ct, "body": body, "boundary": None,
                   "hdr": "gzip" if rng.random() < 0.1 else None, "cfg": None}


# Routes by which a limit configuration reaches the multipart parser (besides config= / the global default seen through
# parse_body_arguments): the public parse_multipart_form_data called directly, with config= or relying on the global
# default installed by set_parse_body_config(); and histories in which the global default was replaced (a decoy
# configuration installed first) before the one under test.
EXTRA_ROUTES = ["direct_kw", "direct_global", "direct_global", "direct_global2", "global2"]
DECOY_CFGS = [(True, 0, 10 * 1024), (True, 100000, 1 << 20), (True, 100, 0), (True, 1, 1)]


def gen_limits(rng):
    """One form, probed with max_parts around n and max_part_header_size around the largest header."""
    parts = gen_form(rng, maxparts=rng.choice([1, 2, 3, 5]))
    ct, body, boundary = fe.enc_multipart(parts, rng, epilogue=rng.choice([b"", b"\r\n"]))
    n = len(parts)
    hmax = max(len(p.header_block) for p in parts)
    unspec = [u for u, c in (("empty_name", any(p.name == "" for p in parts)),
                             ("empty_filename", any(p.filename == "" for p in parts))) if c]
    base = {"k": "limit", "ct": ct, "body": body, "parts": [tup(p) for p in parts], "boundary": boundary,
            "n": n, "hmax": hmax, "unspec": unspec}
    for mp in (n - 1, n, n + 1):
        if mp >= 0:
            yield dict(base, cfg=(True, mp, 10 * 1024), via=rng.choice(["kw", "kw", "global"]))
            yield dict(base, cfg=(True, mp, 10 * 1024), via=rng.choice(EXTRA_ROUTES))
    for L in (hmax - 1, hmax, hmax + 1, hmax + 3, hmax + 4, hmax + 5):
        if L >= 0:
            yield dict(base, cfg=(True, 100, L), via=rng.choice(["kw", "kw", "global"]))
            yield dict(base, cfg=(True, 100, L), via=rng.choice(EXTRA_ROUTES))


def shards(tier, seed):
    q = tier == "quick"
    out = []
    for j in range(6):
        out.append({"kind": "mp", "n": 1500 if q else 120000, "j": j})
    for j in range(2):
        out.append({"kind": "mp_preamble", "n": 300 if q else 20000, "j": j})
    for j in range(3):
        out.append({"kind": "url", "n": 2000 if q else 150000, "j": j})
    for j in range(6):
        out.append({"kind": "safety", "n": 12 if q else 1000, "edits_per_pos": 2 if q else 3, "j": j})
    for j in range(3):
        out.append({"kind": "limit", "n": 250 if q else 15000, "j": j})
    return out


def gen_cases(spec):
    rng = core.rng_for(spec["seed"], PROP, f"{spec['kind']}:{spec['j']}")
    kind = spec["kind"]
    for _ in range(spec["n"]):
        if kind == "mp":
            yield gen_lossless_mp(rng, "plain")
        elif kind == "mp_preamble":
            yield gen_lossless_mp(rng, "preamble")
        elif kind == "url":
            yield gen_lossless_url(rng)
        elif kind == "safety":
            yield from gen_safety(rng, spec)
        elif kind == "limit":
            yield from gen_limits(rng)


def directed_cases():
    import random

    def mp(parts, forms=None, preamble=b"", boundary="BOUNDARY", hseed=1):
        hb = None
        if forms:
            hb = [fe.build_part_headers(p, random.Random(hseed), force_name_form=f[0], force_fn_form=f[1])
                  for p, f in zip(parts, forms)]
        ct, body, b = fe.enc_multipart(parts, random.Random(2), preamble=preamble, epilogue=b"\r\n",
                                       boundary=boundary, header_blocks=hb)
        return {"k": "mp", "ct": ct, "body": body, "parts": [tup(p) for p in parts],
                "classes": ["preamble"] if preamble else [], "unspec": [], "boundary": b, "cfg": None}

    # regression witnesses for the defects found while building this check
    yield mp([fe.Part('"x"', b"v")], [("quoted", None)])
    yield mp([fe.Part('"x"', b"v")], [("ext", None)])
    yield mp([fe.Part("f", b"v", filename='a"b', ctype="text/plain")], [("token", "ext")])
    yield mp([fe.Part("f", b"v", filename="a\\b", ctype="text/plain")], [("token", "ext")])
    yield mp([fe.Part("a\\", b"v", filename="x", ctype="text/plain")], [("quoted", "quoted")])
    # RFC 2231 continuations (section 3: regular sections only; section 4.1: with charset information), as the
    # name, the filename or both, with and without another kind of parameter in the same header
    long = "quarterly report 2024 (final); v=2 \"x\".pdf"
    for nf, ff in (("cont", None), ("contx", None), ("cont", "cont"), ("token", "cont"), ("quoted", "cont"),
                   ("cont", "quoted"), ("ext", "cont"), ("cont", "ext"), ("contx", "cont"), ("cont", "contx"),
                   ("token", "contx"), ("contx", "contx")):
        for k in (1, 2, 3):
            if ff is None:
                part = fe.Part("field name " + "n" * 20, b"v")
            else:
                part = fe.Part("upload field" if nf != "token" else "upload", b"v", filename=long, ctype="text/plain")
            yield mp([part], [(nf, ff)], hseed=k)
    # typed and untyped uploads (and a typed plain field) in one form, every order
    up = lambda n, ct: fe.Part(n, b"\x00\x01" + n.encode(), filename=n + ".bin", ctype=ct)      # noqa: E731
    yield mp([up("a", "image/png"), up("b", None)])
    yield mp([up("b", None), up("a", "image/png")])
    yield mp([up("a", "image/png"), fe.Part("note", b"plain"), up("a", None), up("c", "text/plain; charset=utf-8"), up("d", None)])
    yield mp([fe.Part("note", b"plain", ctype="text/plain; charset=utf-8"), up("b", None), up("b", "a/b"), up("b", None)])
    yield mp([fe.Part("a", b"v")], preamble=b"preamble\r\n")
    yield mp([fe.Part("a", b"v")], preamble=b"\r\n")
    base = mp([fe.Part("a", b"1"), fe.Part("b", b"2")])
    for k in (1, 2, 3):
        yield dict(base, k="limit", cfg=(True, k, 10240), n=2,
                   hmax=max(len(t[4]) for t in base["parts"]), via="kw")
        # the same limits installed as the global default, then the multipart parser called directly without config=
        for via in ("direct_global", "direct_global2", "direct_kw", "global2"):
            yield dict(base, k="limit", cfg=(True, k, 10240), n=2,
                       hmax=max(len(t[4]) for t in base["parts"]), via=via)


# ---------------------------------------------------------------------------
# execution

def make_cfg(cfg):
    if cfg is None:
        return None
    en, mp, hs = cfg
    return ParseBodyConfig(multipart=ParseMultipartConfig(enabled=en, max_parts=mp, max_part_header_size=hs))


def call(case, ctx=None):
    """Runs the real parse_body_arguments. Returns (outcome, args, files, exc)."""
    args, files = {}, {}
    cfg = make_cfg(case.get("cfg"))
    hdr = None
    if case.get("hdr"):
        hdr = HTTPHeaders()
        hdr.add("Content-Encoding", case["hdr"])
    via = case.get("via", "kw")
    saved = httputil._DEFAULT_PARSE_BODY_CONFIG
    try:
        if via in ("direct_kw", "direct_global", "direct_global2"):
            # the public multipart parser itself; its limits come from config= or from the global default
            bnd = case["boundary"].encode("utf-8")
            if cfg is None:
                parse_multipart_form_data(bnd, case["body"], args, files)
            elif via == "direct_kw":
                parse_multipart_form_data(bnd, case["body"], args, files, config=cfg.multipart)
            else:
                if via == "direct_global2":
                    httputil.set_parse_body_config(make_cfg(DECOY_CFGS[len(case["body"]) % len(DECOY_CFGS)]))
                httputil.set_parse_body_config(cfg)
                parse_multipart_form_data(bnd, case["body"], args, files)
        elif cfg is not None and via == "global2":
            httputil.set_parse_body_config(make_cfg(DECOY_CFGS[len(case["body"]) % len(DECOY_CFGS)]))
            httputil.set_parse_body_config(cfg)
            parse_body_arguments(case["ct"], case["body"], args, files, hdr)
        elif cfg is not None and via == "global":
            httputil.set_parse_body_config(cfg)
            parse_body_arguments(case["ct"], case["body"], args, files, hdr)
        elif cfg is not None:
            parse_body_arguments(case["ct"], case["body"], args, files, hdr, config=cfg)
        else:
            parse_body_arguments(case["ct"], case["body"], args, files, hdr)
        return "ok", args, files, None
    except HTTPInputError as e:
        return "input_error", args, files, e
    except Exception as e:  # noqa: BLE001 - the property is about exactly this
        return "other_exception", args, files, e
    finally:
        if httputil._DEFAULT_PARSE_BODY_CONFIG is not saved:
            httputil.set_parse_body_config(saved)


def norm_result(args, files):
    return ({k: list(v) for k, v in args.items()},
            {k: [(f["filename"], f["content_type"], f["body"]) for f in v] for k, v in files.items()})


def files_equal(got, want):
    """content_type is compared only where the encoder wrote one."""
    if set(got) != set(want):
        return False
    for name, wl in want.items():
        gl = got[name]
        if len(gl) != len(wl):
            return False
        for (gfn, gct, gb), (wfn, wct, wb) in zip(gl, wl):
            if gfn != wfn or gb != wb or (wct is not None and gct != wct):
                return False
    return True


def solo_ctype(t, boundary):
    """content_type the real parser reports for upload part `t` when it is the only part of a form (None unless the
    part alone parses to exactly one file)."""
    name, filename, ctype, value, hb, nform, fform = t
    bb = boundary.encode()
    body = b"--" + bb + b"\r\n" + hb + b"\r\n\r\n" + value + b"\r\n--" + bb + b"--\r\n"
    outcome, args, files, exc = call({"ct": 'multipart/form-data; boundary="%s"' % boundary, "body": body})
    if outcome != "ok" or args or len(files) != 1:
        return None
    (fl,) = files.values()
    return fl[0]["content_type"] if len(fl) == 1 else None


def judge_untyped_uploads(case, gf, ctx):
    """An upload that declares no Content-Type: the statement does not say which content_type the parser reports for
    it (tornado documents none), but 'recovers exactly those files' means each file is recovered from its own
    part -- what is reported for this upload must not change with the other fields and files of the form.  It is
    compared with what the same parser reports for the same part alone."""
    parts = case["parts"]
    if len(parts) < 2:
        return True
    ok = True
    seen = {}
    for i, t in enumerate(parts):
        name, filename, ctype = t[0], t[1], t[2]
        if filename is None:
            continue
        j = seen.get(name, 0)
        seen[name] = j + 1
        if ctype is not None:
            continue
        ctx.count("untyped_upload_in_multipart_form_evals")
        earlier = [u[2] for u in parts[:i] if u[2] is not None]
        later = [u[2] for u in parts[i + 1:] if u[2] is not None]
        if earlier:
            ctx.count("untyped_upload_after_typed_part")
        if later:
            ctx.count("untyped_upload_before_typed_part")
        got = gf[name][j][1]
        alone = solo_ctype(t, case["boundary"])
        if alone is None:
            ctx.count("untyped_upload_alone_not_one_file")
            continue
        ctx.count("oracle_evals")
        if got != alone:
            src = "an-earlier-part" if got in earlier else "a-later-part" if got in later else "elsewhere"
            ok = False
            ctx.violation(f"lossless/mp/untyped-upload-content-type-from-{src}",
                          "multipart/form-data: the content_type reported for an upload that declares none depends on "
                          "the other parts of the form",
                          {"part_index": i, "header_block": t[4], "content_type_in_form": got, "content_type_alone": alone,
                           "types_declared_earlier": earlier, "types_declared_later": later,
                           "full_ct": case["ct"], "full_body": case["body"]})
    return ok


def diagnose_part(t, boundary):
    """Re-parse one part alone (same header block) and classify how it is mis-read.
    Returns None if the part alone is read correctly, else (mechanism-suffix, what, witness)."""
    name, filename, ctype, value, hb, nform, fform = t
    bb = boundary.encode()
    body = b"--" + bb + b"\r\n" + hb + b"\r\n\r\n" + value + b"\r\n--" + bb + b"--\r\n"
    ct = 'multipart/form-data; boundary="%s"' % boundary
    outcome, args, files, exc = call({"ct": ct, "body": body})
    w = {"header_block": hb, "value": value, "want_name": name, "want_filename": filename, "outcome": outcome,
         "exc": repr(exc) if exc else None}
    if outcome != "ok":
        return (f"part-rejected/{culprit(t)}", "a single valid part was rejected", w)
    ga, gf = norm_result(args, files)
    w["got_args"], w["got_files"] = ga, gf
    if filename is None:
        if gf or list(ga) != [name]:
            return (f"field-name-misread/{nform}:{feat(name)}", "the field name of a part is not recovered", w)
        if ga[name] != [value]:
            return ("field-value-misread", "the content of a field part is not recovered", w)
        return None
    if ga or list(gf) != [name]:
        if not gf and ga:
            # the part was filed under arguments: the filename parameter was lost
            return (f"filename-param-lost/{culprit(t)}",
                    "an upload part is read as a plain field or under another name", w)
        return (f"upload-field-name-misread/{nform}:{feat(name)}", "the field name of an upload part is not recovered", w)
    (gfn, gct, gb), = gf[name] if len(gf[name]) == 1 else [(None, None, None)]
    if gfn != filename:
        return (f"filename-misread/{fform}:{feat(filename)}", "the filename of an upload is not recovered", w)
    if gb != value:
        return ("upload-content-misread", "the content of an upload is not recovered", w)
    if ctype is not None and gct != ctype:
        return ("upload-content-type-misread", "the content type of an upload is not recovered", w)
    return None


def judge_lossless_mp(case, args, files, ctx):
    want_args, want_files = expect_of(case["parts"])
    ga, gf = norm_result(args, files)
    ctx.count("oracle_evals")
    if ga == want_args and files_equal(gf, want_files):
        return judge_untyped_uploads(case, gf, ctx)
    # attribute the loss to individual parts so that the mechanism names one root cause
    found = False
    for t in case["parts"]:
        d = diagnose_part(t, case["boundary"])
        if d is not None:
            found = True
            mech, what, w = d
            ctx.violation("lossless/mp/" + mech, "multipart/form-data: " + what,
                          dict(w, full_ct=case["ct"], full_body=case["body"]))
    if not found:
        ctx.violation("lossless/mp/parts-interact", "every part alone is read correctly but the whole form is not",
                      {"ct": case["ct"], "body": case["body"], "got_args": ga, "got_files": gf,
                       "want_args": want_args, "want_files": want_files})
    return False


def judge_lossless_url(case, args, files, ctx):
    ctx.count("oracle_evals")
    got = {}
    for k, v in args.items():
        try:
            kb = k.encode("latin-1")
        except (UnicodeEncodeError, AttributeError):
            kb = repr(k).encode()
        got[kb] = list(v)
    want = case["args"]
    ok = True
    if got != want:
        ok = False
        what = "names" if set(got) != set(want) else "values"
        ctx.violation(f"lossless/url/{what}-differ", f"urlencoded body: parsed {what} differ from the encoded form",
                      {"got": got, "want": want, "body": case["body"], "ct": case["ct"]})
    if files:
        ok = False
        ctx.violation("lossless/url/files-not-empty", "urlencoded body produced file entries", {"files": repr(files)})
    return ok


def nontrivial_form(case):
    if case["k"] == "url":
        items = [(n.decode("latin-1"), vs) for n, vs in case["args"].items()]
        return any(not fe.TOKEN_RE.match(n) or any(not fe.TOKEN_RE.match(v.decode("latin-1")) for v in vs)
                   for n, vs in items)
    for name, filename, ctype, value, hb, nf, ff in case["parts"]:
        if filename is not None or not fe.TOKEN_RE.match(name) or not fe.TOKEN_RE.match(value.decode("latin-1")):
            return True
    return False


def run_case(case, ctx):
    k = case["k"]
    key = (case["ct"], case["body"], case.get("cfg"), case.get("hdr"))
    if k == "limit" and case.get("via") in EXTRA_ROUTES:
        key = key + (case["via"],)
    if k in ("mp", "url"):
        outcome, args, files, exc = call(case)
        if case.get("unspec"):
            for u in case["unspec"]:
                ctx.count("unspecified_" + u)
            ctx.count("unspecified_outcome_" + outcome)
            ctx.check(outcome != "other_exception", f"safety/{k}/raises-{type(exc).__name__}",
                      "parse_body_arguments raised something other than HTTPInputError",
                      {"exc": repr(exc), "ct": case["ct"], "body": case["body"]})
            ctx.mark(key, False)
            return
        ctx.count("lossless_" + k)
        for c in case.get("classes") or []:
            ctx.count("class_" + c)
        for t in case.get("parts") or []:
            ctx.count("mp_form_" + t[5])
            if t[1] is not None:
                ctx.count("mp_files")
                ctx.count("mp_fnform_" + t[6])
            elif t[2] is not None:
                ctx.count("mp_field_with_content_type")
        nt = nontrivial_form(case)
        ctx.mark(key, nt)
        if nt:
            ctx.sample({"ct": case["ct"], "body": case["body"]})
        if outcome != "ok":
            ctx.count("oracle_evals")
            if k == "mp" and "preamble" in (case.get("classes") or []):
                # is it the preamble, or a part? re-encode without the preamble
                pre_len = case["body"].index(b"--" + case["boundary"].encode())
                bare = dict(case, body=case["body"][pre_len:], classes=[])
                o2, a2, f2, e2 = call(bare)
                if o2 == "ok":
                    # UNSPECIFIED (lead's decision): the statement pins forms "encoded as multipart/form-data"
                    # by a form encoder; no form encoder emits a MIME preamble, Tornado documents none, and the
                    # repository's own test-suite relies on text before the first delimiter being parsed as a
                    # part. Executed and counted, never gated.
                    ctx.count("unspecified_preamble_rejected")
                    return
            mech = f"lossless/{k}/valid-body-rejected-{type(exc).__name__}"
            if k == "mp":
                # attribute to parts when possible
                hit = False
                for t in case["parts"]:
                    d = diagnose_part(t, case["boundary"])
                    if d is not None:
                        hit = True
                        ctx.violation("lossless/mp/" + d[0], "multipart/form-data: " + d[1],
                                      dict(d[2], full_ct=case["ct"], full_body=case["body"]))
                if hit:
                    return
            ctx.violation(mech, "a body produced by the reference encoder was rejected",
                          {"exc": repr(exc), "ct": case["ct"], "body": case["body"]})
            return
        if k == "mp":
            judge_lossless_mp(case, args, files, ctx)
        else:
            judge_lossless_url(case, args, files, ctx)
        return

    if k == "safety":
        outcome, args, files, exc = call(case)
        ctx.count("safety_evals")
        ctx.count("safety_" + outcome)
        ctx.check(outcome != "other_exception", f"safety/raises-{type(exc).__name__}",
                  "parse_body_arguments raised something other than HTTPInputError",
                  {"exc": repr(exc), "ct": case["ct"], "body": case["body"], "cfg": case.get("cfg")})
        # result containers must hold the documented types whatever the input was
        ok_types = all(isinstance(n, str) and all(isinstance(v, bytes) for v in vs) for n, vs in args.items()) and \
            all(isinstance(n, str) and all(isinstance(f.get("body"), bytes) and isinstance(f.get("filename"), str)
                                          for f in fs) for n, fs in files.items())
        ctx.check(ok_types, "safety/result-types", "arguments/files hold values of undocumented types",
                  {"args": repr(args)[:300], "files": repr(files)[:300]})
        # direct call (undocumented exception contract): observation only
        if case.get("boundary") is not None and case["ct"].startswith("multipart/"):
            try:
                parse_multipart_form_data(case["boundary"].encode("utf-8", "replace"), case["body"], {}, {})
                ctx.count("direct_ok")
            except HTTPInputError:
                ctx.count("direct_input_error")
            except Exception as e:  # noqa: BLE001
                ctx.count("unspecified_direct_" + type(e).__name__)
        ctx.mark(key, True)
        return

    if k == "limit":
        outcome, args, files, exc = call(case)
        en, mp, hs = case["cfg"]
        n, hmax = case["n"], case["hmax"]
        if case.get("unspec"):
            ctx.count("unspecified_limit_form")
            ctx.check(outcome != "other_exception", f"safety/limit/raises-{type(exc).__name__}",
                      "non-HTTPInputError", {"exc": repr(exc)})
            ctx.mark(key, False)
            return
        wit = {"parts": n, "max_parts": mp, "largest_header_block": hmax, "max_part_header_size": hs,
               "outcome": outcome, "exc": repr(exc), "ct": case["ct"], "body": case["body"], "via": case.get("via")}
        via = case.get("via", "kw")
        direct = via.startswith("direct")
        # mechanism suffix: the limit clause is the same, the route by which the configuration arrives is not
        rt = {"direct_kw": "/direct-call", "direct_global": "/direct-call-global-config",
              "direct_global2": "/direct-call-global-config-replaced", "global2": "/global-config-replaced"}.get(via, "")
        if direct:
            # The statement's limit clause covers the multipart parser whichever way it is entered (set_parse_body_config
            # documents the *global default* configuration for parsing request bodies; parse_multipart_form_data is the
            # public multipart body parser). Which exception type a DIRECT call raises is not pinned: only
            # accepted-vs-refused is judged on this route.
            ctx.count("limit_direct_evals")
            ctx.count("limit_route_" + via)
            if outcome == "other_exception":
                ctx.count("unspecified_direct_" + type(exc).__name__)
                outcome = wit["outcome"] = "input_error"   # refused
        else:
            if rt:
                ctx.count("limit_route_" + via)
            ctx.check(outcome != "other_exception", f"safety/limit/raises-{type(exc).__name__}",
                      "parse_body_arguments raised something other than HTTPInputError", wit)
        # A form that is mis-read even without limits is the lossless shards' business: judge the limit only
        # relative to the unlimited outcome.
        base_outcome = call(dict(case, cfg=None))[0]
        if base_outcome != "ok":
            ctx.count("limit_skipped_base_rejected")
            ctx.mark(key, False)
            return
        if hs == 10 * 1024:
            ctx.count("limit_parts_evals")
            if n > mp:
                ctx.count("limit_parts_over")
                ctx.check(outcome == "input_error", "limit/max_parts/over-limit-accepted" + rt,
                          "a body with more parts than max_parts was accepted", wit)
            else:
                ctx.count("limit_parts_at" if n == mp else "limit_parts_under")
                ctx.check(outcome == "ok", ("limit/max_parts/at-limit-refused" if n == mp
                                            else "limit/max_parts/under-limit-refused") + rt,
                          "a body with no more parts than max_parts was refused", wit)
        else:
            ctx.count("limit_header_evals")
            if hmax > hs:
                ctx.count("limit_header_over")
                ctx.check(outcome == "input_error", "limit/max_part_header_size/over-limit-accepted" + rt,
                          "a part whose header block alone exceeds max_part_header_size was accepted", wit)
            elif hmax + 4 <= hs:
                ctx.count("limit_header_under")
                ctx.check(outcome == "ok", "limit/max_part_header_size/under-limit-refused" + rt,
                          "a part whose header block including its terminating CRLFCRLF fits "
                          "max_part_header_size was refused", wit)
            else:
                ctx.count("unspecified_header_size_window")
        ctx.mark(key, True)
        return
    raise ValueError(k)
