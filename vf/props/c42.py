"""C42 — Subprocess exit callback runs exactly once with the right status; wait_for_exit resolves/raises accordingly.

REAL children (`/bin/sh -c ...`) on a REAL asyncio loop.  A case is a batch of 1..16 children; each
child has a planned fate (exit code / self-sent signal, with core dumps disabled or ENABLED in the
child - `ulimit -c <limit>` and a scratch cwd - so that the wait status carries the 0x80 core flag),
a registration timing (the exit callback is
registered BEFORE the child can exit - it blocks on a pipe the harness closes later - or AFTER it
has exited and is a zombie, with no loop turn in between - or LATE: after it has exited AND the loop
has run for a while: SIGCHLDs were handled, other registered children exited and were reported while
this one was an unregistered zombie) and an API (set_exit_callback, wait_for_exit with raise_error on/off).
In some batches the application itself waits for one or more REGISTERED children (Popen.wait / Popen.poll /
os.waitpid) once they are dead, so that tornado's table holds pids the kernel no longer knows; what tornado reports
for those children is not pinned, but every other child of the batch must still be reported exactly once.

Ground truth for the status is not the plan but the kernel: `waitid(P_PID, pid, WEXITED|WNOWAIT)`
reports how each child really ended without reaping it (so tornado's own waitpid is not disturbed).

No sleep-based verdict: the barrier is "waitid() has returned for every child" (each is a zombie or
already reaped, hence its SIGCHLD has been queued and the wakeup byte written, see `run_batch`), followed by a bounded number of loop turns; a callback still missing then comes with
structural evidence (zombie/registered/pending-signal state) in the witness.  At the end of each
batch extra SIGCHLDs are raised to show that no callback runs a second time.
"""
from __future__ import annotations

import asyncio
import os
import shutil
import signal
import subprocess
import tempfile

from vf import core

core.use_repo()
from tornado.process import CalledProcessError, Subprocess  # noqa: E402

PROP = "C42"
META = {
    "level": "exploration",
    "technique": "real child processes on a real loop; kernel-reported fate (waitid WNOWAIT) as oracle; exactly-once counting at a structural barrier",
    "level_text": "Batches of 1-16 real /bin/sh children whose fate (exit codes 0..255, nineteen terminating signals; core-dumping signals both with core dumps disabled and with core dumps enabled in the child, RLIMIT_CORE unlimited/100/8/1 blocks in a scratch cwd, so that the kernel sets the core flag in the wait status) and registration timing (before exit / after the child is a zombie / late: the child became a zombie, then the loop ran - its own SIGCHLD handled, optionally extra SIGCHLDs, optionally other registered children exiting and being reported - and only then is it registered; SIGCHLD handler installed beforehand or not) are chosen by the generator are run through tornado.process.Subprocess with set_exit_callback or wait_for_exit(raise_error on/off); callback counts and values are compared with what the kernel reports for each pid, after all children of the batch are dead and again after extra SIGCHLDs.",
    "level_note": "Linux only. The expected status is read from the kernel with waitid(WNOWAIT) before tornado reaps; the barrier relies on SIGCHLD being queued before a zombie becomes visible to waitid (Linux exit_notify ordering) in a single-threaded process.",
    "design_ref": "DESIGN.md §4 C42",
    "engine": "monitor",
}
RULE = ("cases are batches of children (fate incl. core-dump limit, timing before/after/late relative to exit and to the "
        "handling of SIGCHLDs, API, handler pre-installed, mid-phase plan, optionally registered children reaped by the "
        "application itself - early or at the barrier - leaving stale pids in the table); non-trivial if the batch "
        "has a child with a non-zero exit status or a signal; distinct by the batch description; children are counted too")
FLOORS = {"quick": 30, "thorough": 1000}
ASSUMPTIONS = ["Linux waitid(WNOWAIT) semantics; SIGCHLD queued before the zombie is visible",
               "the shard process is single-threaded and runs the loop in its main thread",
               "/bin/sh with builtin kill and read"]
REQUIRED_COUNTERS = ["oracle_evals", "children", "registered_before_exit", "registered_after_exit", "signal_fates",
                     "nonzero_exit_fates", "wait_for_exit_raise_checks", "extra_sigchld_rounds", "concurrent_batches",
                     "registered_late_exit", "late_reg_after_other_exit_reported", "late_reg_while_other_still_registered",
                     "core_flag_fates", "children_reaped_by_application", "stale_pid_left_in_table",
                     "judged_with_stale_pid_in_table"]
SHARD_TIMEOUT = {"quick": 300, "thorough": 3600}

SIGNALS = [1, 15, 9, 10, 12, 11, 6, 13, 14, 7, 8]     # HUP TERM KILL USR1 USR2 SEGV ABRT PIPE ALRM BUS FPE
CODES = [0, 0, 1, 2, 127, 128, 255, 126, 3, 64]
# signals whose default action dumps core: QUIT ILL TRAP ABRT BUS FPE SEGV XCPU XFSZ SYS
CORE_SIGNALS = [3, 4, 5, 6, 7, 8, 11, 24, 25, 31]
# RLIMIT_CORE given to `ulimit -c` in the child (blocks): the kernel sets the core flag when a (possibly truncated)
# dump was written; a limit too small for even the headers (1) or a non-dumping signal leaves the flag clear
CORE_LIMITS = ["unlimited", "unlimited", "unlimited", 100, 8, 1]
# exit codes that look like "signal + core flag" / "signal" in one byte
CORE_LOOKALIKE_CODES = [131, 134, 139, 136, 159, 143, 137]
TIMINGS = ["before", "before", "after", "late", "late"]
APIS = ["callback", "wait_raise", "wait_noraise"]


def shards(tier, seed):
    nb = 48 if tier == "quick" else 1600
    k = 8 if tier == "quick" else 16
    return [{"batches": nb // k, "j": j} for j in range(k)]


def gen_cases(spec):
    rng = core.rng_for(spec["seed"], PROP, spec["j"])
    rng2 = core.rng_for(spec["seed"], PROP, f"{spec['j']}/reaped-elsewhere")   # second stream: the batches stay what they were
    for _ in range(spec["batches"]):
        size = rng.choice([1, 1, 2, 3, 4, 6, 8, 16]) if rng.random() < 0.9 else rng.randint(9, 16)
        kids = []
        for _ in range(size):
            r = rng.random()
            if r < 0.25:
                fate = ("signal", rng.choice(SIGNALS + CORE_SIGNALS))
            elif r < 0.5:
                # core dumps enabled in the child; mostly core-dumping signals, some that do not dump
                fate = ("core", rng.choice(CORE_SIGNALS * 3 + SIGNALS), rng.choice(CORE_LIMITS))
            else:
                x = rng.random()
                fate = ("exit", rng.choice(CODES) if x < 0.5 else rng.choice(CORE_LOOKALIKE_CODES) if x < 0.6
                        else rng.randint(0, 255))
            kids.append((fate, rng.choice(TIMINGS), rng.choice(APIS)))
        nbefore = sum(1 for k in kids if k[1] == "before")
        case = {"kids": kids, "preinit": rng.random() < 0.5, "interleave": rng.random() < 0.5,
                "coalesce": size > 1 and rng.random() < 0.5,
                # what happens between the death of the "late" children and their registration
                "mid": {"release": rng.choice([0, 0, 1, 1, 2, nbefore]), "extra_sigchld": rng.random() < 0.3,
                        "turns": rng.choice([0, 1, 3, 10, 30])}}
        # some registered children are waited for by the application itself (Popen.wait/poll, os.waitpid) instead of
        # by tornado: their pid stays in tornado's table although the kernel no longer knows it
        befores = [i for i, k in enumerate(kids) if k[1] == "before"]
        if size >= 2 and befores and rng2.random() < 0.4:
            n = min(len(befores), size - 1, rng2.choice([1, 1, 1, 2, 3]))
            case["reaped_elsewhere"] = {"idx": sorted(rng2.sample(befores, n)),
                                        "how": rng2.choice(["proc_wait", "proc_poll", "waitpid"]),
                                        "when": rng2.choice(["early", "early", "barrier"])}
        yield case


def directed_cases():
    # several children die while SIGCHLD is blocked: exactly one (coalesced) SIGCHLD announces all of them
    yield {"kids": [(("signal", 9), "before", "callback"), (("signal", 15), "before", "wait_noraise"),
                    (("exit", 3), "before", "callback")], "preinit": True, "interleave": False, "coalesce": True}
    yield {"kids": [(("exit", 0), "before", "callback")], "preinit": False, "interleave": False}
    yield {"kids": [(("signal", 9), "after", "wait_raise")], "preinit": False, "interleave": False}
    yield {"kids": [(("exit", 3), "after", "callback"), (("signal", 15), "before", "wait_noraise"),
                    (("exit", 255), "before", "wait_raise")], "preinit": True, "interleave": True}
    # A exits unregistered; B is registered and stays so while A's SIGCHLD is handled; A is registered afterwards
    yield {"kids": [(("exit", 7), "late", "callback"), (("exit", 0), "before", "callback")],
           "preinit": False, "interleave": False, "mid": {"release": 0, "extra_sigchld": False, "turns": 10}}
    # ... and B (registered) exits and is reported in between
    yield {"kids": [(("exit", 0), "before", "callback"), (("exit", 7), "late", "wait_noraise"),
                    (("signal", 15), "late", "wait_raise"), (("exit", 0), "late", "callback"),
                    (("exit", 1), "before", "wait_noraise")],
           "preinit": True, "interleave": False, "mid": {"release": 1, "extra_sigchld": True, "turns": 3}}
    yield {"kids": [(("signal", 9), "late", "callback")], "preinit": True, "interleave": False,
           "mid": {"release": 0, "extra_sigchld": True, "turns": 30}}
    # killed by core-dumping signals with core dumps enabled (wait status has the 0x80 flag) vs look-alike exit codes
    yield {"kids": [(("core", 3, "unlimited"), "before", "callback"), (("core", 6, "unlimited"), "after", "wait_raise"),
                    (("core", 11, 100), "before", "wait_noraise"), (("core", 15, "unlimited"), "before", "callback"),
                    (("exit", 131), "before", "callback"), (("core", 8, 8), "late", "wait_raise"),
                    (("signal", 3), "before", "callback"), (("core", 7, 1), "after", "callback")],
           "preinit": False, "interleave": True, "mid": {"release": 2, "extra_sigchld": False, "turns": 1}}
    yield from _directed_reaped_elsewhere()


def _directed_reaped_elsewhere():
    # the first-registered child is waited for by the application (Popen.wait) after it exited: its pid stays in the
    # table; the other children (registered before and after that) exit later and must still be reported
    yield {"kids": [(("exit", 5), "before", "callback"), (("exit", 3), "before", "callback"),
                    (("signal", 15), "before", "wait_noraise"), (("exit", 7), "late", "callback"),
                    (("exit", 0), "after", "wait_raise")],
           "preinit": True, "interleave": False, "coalesce": False,
           "mid": {"release": 1, "extra_sigchld": False, "turns": 3},
           "reaped_elsewhere": {"idx": [0], "how": "proc_wait", "when": "early"}}
    yield {"kids": [(("exit", 1), "before", "wait_noraise"), (("signal", 9), "before", "callback"),
                    (("exit", 0), "before", "callback"), (("exit", 255), "before", "wait_raise")],
           "preinit": False, "interleave": True, "coalesce": True,
           "reaped_elsewhere": {"idx": [1, 2], "how": "waitpid", "when": "barrier"}}
    yield {"kids": [(("exit", 0), "before", "callback"), (("exit", 9), "before", "callback")],
           "preinit": False, "interleave": False, "coalesce": False,
           "reaped_elsewhere": {"idx": [0], "how": "proc_poll", "when": "early"}}


def script_for(fate, timing):
    if fate[0] == "exit":
        die = f"exit {fate[1]}"
    elif fate[0] == "core":
        # core dumps enabled for this child only (its cwd is a scratch directory)
        die = f"ulimit -c {fate[2]} 2>/dev/null; kill -{fate[1]} $$; exit 99"
    else:
        die = f"ulimit -c 0; kill -{fate[1]} $$; exit 99"
    return ("read x; " if timing == "before" else "") + die


def _scratch_parent():
    """As a shard worker: the runner's own temp directory (argv: -m vf.core --worker PROP spec out), which the runner
    removes even when the shard is killed on timeout; otherwise the default temp directory."""
    import sys
    if len(sys.argv) >= 5 and sys.argv[1] == "--worker":
        d = os.path.dirname(os.path.abspath(sys.argv[3]))
        if os.path.isdir(d) and os.access(d, os.W_OK):
            return d
    return None


def _subdir(scratch, idx):
    # one directory per child: concurrent dumps to one "core" file exclude each other
    d = os.path.join(scratch, f"k{idx}")
    os.mkdir(d)
    return d


def core_pattern():
    try:
        with open("/proc/sys/kernel/core_pattern") as f:
            return f.read().strip()
    except OSError:
        return "?"


def kernel_fate(pid, block=True):
    """How the kernel says `pid` ended, without reaping it. None if it has been reaped (or not yet dead)."""
    try:
        info = os.waitid(os.P_PID, pid, os.WEXITED | os.WNOWAIT | (0 if block else os.WNOHANG))
    except ChildProcessError:
        return "reaped"
    if info is None:
        return None
    if info.si_code == os.CLD_EXITED:
        return info.si_status
    if info.si_code == os.CLD_DUMPED:
        DUMPED.add(pid)
    return -info.si_status


DUMPED = set()      # pids the kernel reported as CLD_DUMPED (wait status will carry the core flag)


class Kid:
    def __init__(self, idx, fate, timing, api):
        self.idx, self.fate, self.timing, self.api = idx, fate, timing, api
        self.sp = None
        self.calls = []        # values passed to the exit callback
        self.future = None
        self.truth = None
        self.stolen = False    # reaped by the "application" (the harness) instead of by tornado

    def register(self, ctx):
        if self.api == "callback":
            self.sp.set_exit_callback(self.calls.append)
        else:
            self.future = self.sp.wait_for_exit(raise_error=(self.api == "wait_raise"))
        ctx.count({"before": "registered_before_exit", "after": "registered_after_exit",
                   "late": "registered_late_exit"}[self.timing])

    def describe(self):
        return {"child": self.idx, "planned": list(self.fate), "timing": self.timing, "api": self.api,
                "reaped_by_application": self.stolen,
                "pid": self.sp.pid if self.sp else None, "kernel_says": self.truth, "callback_values": list(self.calls),
                "future": None if self.future is None else (
                    "pending" if not self.future.done() else
                    repr(self.future.exception()) if self.future.exception() else repr(self.future.result()))}


def done(k):
    return bool(k.calls) if k.api == "callback" else k.future.done()


async def turns(kids, limit=200):
    n = 0
    while n < limit and not all(done(k) for k in kids):
        await asyncio.sleep(0)
        n += 1
    # a few more so that a second, spurious invocation would also have had its chance
    for _ in range(5):
        await asyncio.sleep(0)
    return n


def reap_elsewhere(k, how, ctx, release=True):
    """The application waits for a registered child itself.  The child is dead (zombie) before it is reaped and no loop
    turn happens in here, so tornado cannot have seen it: afterwards its pid is a stale entry in tornado's table."""
    if release:
        k.sp.stdin.close()
    k.truth = kernel_fate(k.sp.pid)
    if how == "proc_wait":
        k.sp.proc.wait()
    elif how == "proc_poll":
        k.sp.proc.poll()
    else:
        os.waitpid(k.sp.pid, 0)
    if kernel_fate(k.sp.pid, block=False) != "reaped":
        raise RuntimeError("harness: child is still known to the kernel after the application waited for it")
    k.stolen = True
    ctx.count("children_reaped_by_application")
    if k.sp.pid in Subprocess._waiting:
        ctx.count("stale_pid_left_in_table")


async def run_batch(case, ctx):
    kids = [Kid(i, tuple(f), t, a) for i, (f, t, a) in enumerate(case["kids"])]
    steal = case.get("reaped_elsewhere") or {"idx": [], "how": None, "when": None}
    to_steal = [kids[i] for i in steal["idx"]]
    if len(kids) > 1:
        ctx.count("concurrent_batches")
    scratch = None
    if any(k.fate[0] == "core" for k in kids):
        # cwd of the children that may dump core; removed with everything in it at the end of the batch
        scratch = tempfile.mkdtemp(prefix="vf-c42-core-", dir=_scratch_parent())
    if case["preinit"]:
        Subprocess.initialize()
    try:
        for k in kids:
            k.sp = Subprocess(["/bin/sh", "-c", script_for(k.fate, k.timing)],
                              stdin=subprocess.PIPE if k.timing == "before" else subprocess.DEVNULL,
                              stdout=subprocess.DEVNULL, stderr=subprocess.DEVNULL,
                              cwd=_subdir(scratch, k.idx) if k.fate[0] == "core" else None)
            ctx.count("children")
            if k.timing == "before" and not case["interleave"]:
                k.register(ctx)
        # children that must be dead before registration: wait (kernel) until each is a zombie
        for k in kids:
            if k.timing in ("after", "late"):
                k.truth = kernel_fate(k.sp.pid)
                if case["interleave"] and k.timing == "after":
                    k.register(ctx)
        for k in kids:
            if k.timing == "before" and case["interleave"]:
                k.register(ctx)
            if k.timing == "after" and not case["interleave"]:
                k.register(ctx)
        # mid phase: the "late" children are unregistered zombies; the loop runs, their SIGCHLD (already queued, see
        # the barrier argument in the module docstring) is handled if a handler is installed, optionally further
        # SIGCHLDs arrive and some registered children exit and are reported; only then are the late ones registered
        if steal["when"] == "early":
            for k in to_steal:
                reap_elsewhere(k, steal["how"], ctx)
            for _ in range(3):           # their SIGCHLD is handled: a sweep over a table that holds a stale pid
                await asyncio.sleep(0)
        late = [k for k in kids if k.timing == "late"]
        released = []
        if late:
            mid = case.get("mid") or {"release": 0, "extra_sigchld": False, "turns": 3}
            befores = [k for k in kids if k.timing == "before" and k not in to_steal]
            released = befores[:mid["release"]]
            for k in released:
                k.sp.stdin.close()
            for k in released:                      # no await since the release: tornado cannot have reaped them
                k.truth = kernel_fate(k.sp.pid)
            if mid["extra_sigchld"]:
                os.kill(os.getpid(), signal.SIGCHLD)
            if released:
                await turns(released)
            for _ in range(mid["turns"]):
                await asyncio.sleep(0)
            if released and all(done(k) for k in released):
                ctx.count("late_reg_after_other_exit_reported")
            if any(k.sp.pid in Subprocess._waiting for k in kids if k.timing != "late"):
                ctx.count("late_reg_while_other_still_registered")
            for k in late:
                k.register(ctx)
        # release every blocked child in the same instant; with "coalesce" SIGCHLD is blocked until all of them
        # are dead, so the kernel delivers a single pending SIGCHLD for the whole batch (standard signals do
        # not queue) - the schedule in which "one SIGCHLD = one child" reasoning loses exits
        coalesce = bool(case.get("coalesce"))
        if coalesce:
            signal.pthread_sigmask(signal.SIG_BLOCK, {signal.SIGCHLD})
            ctx.count("coalesced_sigchld_batches")
        for k in kids:
            if k.timing == "before" and k not in released and not k.stolen:
                k.sp.stdin.close()
        # barrier: every child is dead (zombie or reaped). No await happened since the release, so
        # tornado cannot have reaped a "before" child yet and the kernel still tells us its fate.
        try:
            for k in kids:
                if k.timing == "before" and k not in released and not k.stolen:
                    k.truth = kernel_fate(k.sp.pid)
            if steal["when"] == "barrier":
                for k in to_steal:
                    reap_elsewhere(k, steal["how"], ctx, release=False)
        finally:
            if coalesce:
                signal.pthread_sigmask(signal.SIG_UNBLOCK, {signal.SIGCHLD})
        used = await turns([k for k in kids if not k.stolen])
        ctx.count("loop_turns_used", used)
        judge(kids, case, ctx)
        # repeated SIGCHLD must not re-run anything (judged separately: a later SIGCHLD must not be
        # what rescues a lost notification, so the verdict above is taken first)
        before = [(len(k.calls), None if k.future is None else k.future.done()) for k in kids]
        for _ in range(2):
            os.kill(os.getpid(), signal.SIGCHLD)
            for _ in range(6):
                await asyncio.sleep(0)
        ctx.count("extra_sigchld_rounds")
        for k, (ncalls, fdone) in zip(kids, before):
            ctx.count("oracle_evals")
            if len(k.calls) > max(ncalls, 1) or (ncalls >= 1 and len(k.calls) > ncalls):
                ctx.violation("exit-callback/called-again-on-later-SIGCHLD",
                              "a later SIGCHLD made the exit callback run again",
                              {"batch": [x.describe() for x in kids], "child": k.describe()})
            elif len(k.calls) > ncalls or (fdone is False and k.future.done()):
                ctx.count("late_notification_after_extra_sigchld")
    finally:
        for k in kids:
            if k.sp is None:
                continue
            try:
                if k.sp.stdin and not k.sp.stdin.closed:
                    k.sp.stdin.close()
            except Exception:  # noqa: BLE001
                pass
            if kernel_fate(k.sp.pid, block=False) is None:       # still running: should not happen
                try:
                    os.kill(k.sp.pid, 9)
                except ProcessLookupError:
                    pass
            try:
                os.waitpid(k.sp.pid, 0)
            except ChildProcessError:
                pass
            Subprocess._waiting.pop(k.sp.pid, None)
            if k.sp.proc.returncode is None:
                k.sp.proc.returncode = -999
            DUMPED.discard(k.sp.pid)
        Subprocess.uninitialize()
        if scratch is not None:
            shutil.rmtree(scratch, ignore_errors=True)


def judge(kids, case, ctx):
    stale = any(k.stolen for k in kids)
    for k in kids:
        if k.stolen:
            # tornado can no longer learn this child's status: whether and how it is reported is not pinned
            ctx.count("unspecified_report_for_child_reaped_by_application")
            if done(k):
                ctx.count("child_reaped_by_application_was_reported")
            continue
        if stale:
            ctx.count("judged_with_stale_pid_in_table")
        ctx.count("oracle_evals")
        want = k.truth
        planned = k.fate[1] if k.fate[0] == "exit" else -k.fate[1]
        if want in (None, "reaped"):
            raise RuntimeError(f"harness could not observe the fate of child {k.describe()}")
        if want != planned:
            ctx.count("fate_differs_from_plan")
        if k.sp.pid in DUMPED:
            ctx.count("core_flag_fates")         # the kernel dumped core: the wait status has 0x80 set
        elif k.fate[0] == "core":
            ctx.count("core_enabled_but_no_core_flag")
            if core_pattern().startswith("|"):
                ctx.count("core_pattern_piped_to_handler")     # diagnosis when core_flag_fates stays 0 (=> INCONCLUSIVE)
        if want < 0:
            ctx.count("signal_fates")
        elif want > 0:
            ctx.count("nonzero_exit_fates")
        state = kernel_fate(k.sp.pid, block=False)
        wit = {"batch": [x.describe() for x in kids], "child": k.describe(), "preinit": case["preinit"],
               "interleave": case["interleave"], "mid": case.get("mid"), "kernel_dumped_core": k.sp.pid in DUMPED,
               "state": {"still_zombie": state not in ("reaped", None), "in_waiting_table": k.sp.pid in Subprocess._waiting,
                         "sigchld_pending": signal.SIGCHLD in signal.sigpending(),
                         "returncode_attr": k.sp.returncode}}
        if k.api == "callback":
            if len(k.calls) == 0:
                ctx.violation(f"exit-callback/never-called/registered-{k.timing}-exit",
                              "the exit callback was not run although the child is dead and every SIGCHLD was delivered", wit)
            elif len(k.calls) > 1:
                ctx.violation("exit-callback/called-more-than-once", "the exit callback ran more than once", wit)
            elif k.calls[0] != want:
                ctx.violation(_value_mech("exit-callback", k.calls[0], want),
                              "the exit callback got a value different from the exit status (negative signal number)", wit)
            continue
        fut = k.future
        if not fut.done():
            ctx.violation(f"wait_for_exit/never-resolved/registered-{k.timing}-exit",
                          "wait_for_exit() is still pending although the child is dead and every SIGCHLD was delivered", wit)
            continue
        exc = fut.exception()
        if k.api == "wait_raise":
            ctx.count("wait_for_exit_raise_checks")
        if k.api == "wait_raise" and want != 0:
            if exc is None:
                ctx.violation("wait_for_exit/no-CalledProcessError-for-nonzero-status",
                              "wait_for_exit(raise_error=True) resolved normally for a non-zero status", wit)
            elif not isinstance(exc, CalledProcessError):
                ctx.violation(f"wait_for_exit/raised-{type(exc).__name__}", "wait_for_exit raised something else", wit)
            elif exc.returncode != want:
                ctx.violation(_value_mech("wait_for_exit/CalledProcessError", exc.returncode, want),
                              "CalledProcessError.returncode differs from the exit status", wit)
        else:
            if exc is not None:
                ctx.violation(f"wait_for_exit/unexpected-{type(exc).__name__}",
                              "wait_for_exit raised although raise_error is off or the status is 0", wit)
            elif fut.result() != want:
                ctx.violation(_value_mech("wait_for_exit/result", fut.result(), want),
                              "wait_for_exit resolved with a value different from the exit status", wit)


def _value_mech(prefix, got, want):
    if want < 0 and got == -want:
        return f"{prefix}/signal-number-not-negated"
    if want < 0 and got == -((-want) | 0x80):
        return f"{prefix}/core-flag-folded-into-signal-number"
    if want < 0:
        return f"{prefix}/wrong-value-for-signal"
    return f"{prefix}/wrong-value-for-exit-status"


def run_case(case, ctx):
    nontrivial = any((f[0] in ("signal", "core")) or f[1] != 0 for f, _t, _a in case["kids"])
    new = ctx.mark(repr(case), nontrivial)
    if new and nontrivial and len(ctx.samples) < 3:
        ctx.sample(case)
    for i, (f, t, a) in enumerate(case["kids"]):
        ctx.mark(("kid", repr(case), i), tuple(f) != ("exit", 0))
    asyncio.run(run_batch(case, ctx))
