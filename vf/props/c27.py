"""C27 — static Range / conditional responses match the file exactly.

Real StaticFileHandler behind HTTPServer over files of sizes 0,1,2,10,255,70000.
Oracle: RFC 7233 single-range arithmetic + a strict `bytes=` grammar + a small
304 decision table; responses are delimited by the strict response reader.

History cases: one path is written, requested, rewritten (other length / content /
mtime, in place or by rename) and requested again through the same handler class
and application; every response is judged against the file as it is when the
request is made.
"""
from __future__ import annotations

import os
import re

from vf import core
from vf.refs import webrig
from vf.refs.staticfx import Fixture

core.use_repo()
import tornado.web  # noqa: E402

PROP = "C27"
META = {
    "level": "exploration",
    "technique": "RFC 7233 single-range arithmetic + strict Range grammar + 304 decision table compared with the delimited response (status, Content-Range, Content-Length, body), GET vs HEAD pairing",
    "level_text": "For files of 0/1/2/10/255/70000 bytes, Range strings from a grammar of valid specs (positions around 0, size-1, size, size+1, 10^20, and positions / suffix lengths written with 600 to 20000 digits, i.e. around and beyond the interpreter's 4300-digit int conversion limit, with and without leading zeros; suffix lengths 0,1,size,size+1) and invalid ones (signs, inner spaces, underscores, NBSP, hex, floats, double dashes, other units, multiple ranges) crossed with If-None-Match / If-Modified-Since variants are requested with GET and HEAD through the real server. Every response must be one of: 200 + whole file, 206 + exact Content-Range + exactly those bytes, 416 + 'bytes */size', 304 without body; Content-Length must frame the body; a syntactically invalid Range must change nothing; HEAD must equal GET minus body. In history cases a path is rewritten between requests (2-4 versions of different length, content and mtime, in place or by atomic rename, first request after a rewrite being any of whole-file/range/suffix/conditional GET or HEAD) and the same oracle is applied with the current content, size, mtime and ETag.",
    "level_note": "Trusts the strict Range regex and 20-line range arithmetic. Not judged (executed, internal consistency only): a bare number without '-' ('bytes=26': the repository's own tests rely on it being honoured as '26-'), unit spelled in another case, empty list elements ('bytes=0-1,'), whether an unsatisfiable or inverted range is answered 416 or ignored (both accepted), a server ignoring a valid range (200 + whole file accepted), obsolete date formats, malformed If-None-Match lists. Non-ASCII digits cannot reach int() through a latin-1 header and are only exercised as bytes.",
    "design_ref": "DESIGN.md §4 C27",
    "engine": "wire",
}
RULE = ("a case is (file size, Range header value or none, conditional header variants, method), or a history "
        "(path, [write version | request]...) on one path; non-trivial when it "
        "carries a Range that the strict grammar classifies as valid-partial or invalid, or a crisp conditional "
        "(history: at least one request after a rewrite that changed the size); distinct by the case tuple")
FLOORS = {"quick": 6000, "thorough": 60000}
ASSUMPTIONS = ["strict single-range grammar = RFC 7233 byte-ranges-specifier with exactly one spec, lower-case unit",
               "files change only between requests (history cases rewrite them while no request is in flight), never during one"]
REQUIRED_COUNTERS = ["oracle_evals", "range_valid_evals", "range_invalid_evals", "expect_304_evals", "head_pair_evals",
                     "status_206", "status_416", "status_304", "safety_evals", "history_cases", "history_rewrites",
                     "history_requests_after_rewrite", "history_size_changed_evals", "history_first_after_rewrite_ranged",
                     "history_first_after_rewrite_head", "history_stale_validator_evals", "huge_digit_range_evals",
                     "huge_over_4300_digits_strict_valid", "huge_over_4300_digits_other"]

SIZES = [0, 1, 2, 10, 255, 70000]
MTIME = 1600000000


_CONTENT = {}


def content(n):
    if n not in _CONTENT:
        _CONTENT[n] = bytes((i * 7 + (i >> 8) * 13 + n) % 251 for i in range(n))
    return _CONTENT[n]


def shards(tier, seed):
    if tier == "quick":
        return [{"n": 1000} for _ in range(16)]
    return [{"n": 30000} for _ in range(32)]


# ------------------------------------------------------------------ generation

INVALID = ["bytes=+5-", "bytes=1_0-", "bytes= 5-", "bytes=5 -7", "bytes=5- 7", "bytes=0x1-", "bytes=1--2", "bytes=--1", "bytes=-+1",
           "bytes=- 1", "bytes=-1_0", "bytes=1-+2", "bytes=1-2-3", "bytes=abc", "bytes=0-1x", "bytes=1.0-2", "bytes=1e1-", "bytes=-1--2",
           "bytes =0-1", "bytes==0-1", "bytes=0-1=", "bytes 0-1", "bytes:0-1", "items=0-1", "byte=0-1", "bytess=0-1", "=0-1", "0-1",
           "bytes=1-2,4-5", "bytes=0-0,1-1", "bytes=\xa05-", "bytes=5\xa0-", "bytes=-\xa05", "bytes=\x855-", "bytes=\xd9\xa3-",
           "bytes=\xef\xbc\x91-", "bytes=\xb2-", "bytes=0-\xb9", "bytes=5-\t7", "bytes=\t5-7", "bytes=5-7 x", "bytes=0- 0", "bytes=+0-+0",
           "bytes=-0x5", "bytes=1_1-1_2", "bytes=0_0-", "bytes= -5", "bytes=- 5", "bytes=1 -", "bytes=1- ", "none", "bytes=*", "bytes=0-*",
           "bytes=0--1", "bytes=-5-", "bytes=5-4-3", "bytes=٣-".encode("utf-8").decode("latin-1")]
DEGENERATE = ["bytes=", "bytes=-", ""]            # no spec at all: ignored
UNSPEC = ["BYTES=0-1", "Bytes=1-", "bytes=0-1,", "bytes=,0-1", "bytes=0-1, ", "bYtEs=-1"]


def _pos(rng, n):
    return rng.choice([0, 0, 1, 2, n - 2, n - 1, n, n + 1, 2 * n, n // 2, 9, 10 ** 20, rng.randint(0, max(n, 1))])


# Digit strings around and beyond the interpreter's int<->str conversion limit (sys.get_int_max_str_digits(),
# 4300 by default, may be configured lower or off): syntactically these are ordinary 1*DIGIT positions.  They are
# built as strings (the generator itself must not convert them) and stay inside the 64 KiB header limit.
HUGE_LENS = [640, 641, 1000, 4299, 4300, 4301, 4302, 4400, 5000, 9000, 20000]


def _huge_digits(rng, n):
    L = rng.choice(HUGE_LENS) if rng.random() < 0.8 else rng.randint(600, 12000)
    k = rng.random()
    if k < 0.3:
        return "9" * L
    if k < 0.5:
        return "1" + "0" * (L - 1)
    if k < 0.75:
        # a small value written with that many digits (leading zeros)
        small = str(max(0, _pos(rng, n)) % 100000)
        return "0" * max(1, L - len(small)) + small
    return rng.choice("123456789") + "".join(rng.choice("0123456789") for _ in range(L - 1))


def gen_huge_range(rng, n):
    """Range values whose first-byte-pos / last-byte-pos / suffix-length has hundreds to thousands of digits, in
    valid shapes and spliced into the invalid ones."""
    H = lambda: _huge_digits(rng, n)                                    # noqa: E731
    P = lambda: str(max(0, _pos(rng, n)))                               # noqa: E731
    k = rng.random()
    if k < 0.2:
        return "bytes=%s-%s" % (P(), H())
    if k < 0.35:
        return "bytes=%s-%s" % (H(), P())
    if k < 0.45:
        return "bytes=%s-%s" % (H(), H())
    if k < 0.6:
        return "bytes=%s-" % H()
    if k < 0.75:
        return "bytes=-%s" % H()
    if k < 0.8:
        return rng.choice(["bytes=%s", "bytes=%s,0-1", "bytes=0-1,%s-", "bytes=0-1,-%s", "items=%s-", "%s-", "bytes=%s-7-"]) % H()
    s = rng.choice([x for x in INVALID if "5" in x or "1" in x])
    d = "5" if "5" in s else "1"
    return s.replace(d, H(), 1)


def gen_range(rng, n):
    k = rng.random()
    if k < 0.12:
        return None
    if k < 0.15:
        return gen_huge_range(rng, n)
    if k < 0.4:
        a, b = max(0, _pos(rng, n)), max(0, _pos(rng, n))
        z = rng.choice(["", "", "", "0", "000"])
        return "bytes=%s%d-%d" % (z, a, b)
    if k < 0.52:
        return "bytes=%d-" % max(0, _pos(rng, n))
    if k < 0.64:
        return "bytes=-%d" % rng.choice([0, 1, 2, max(n - 1, 0), n, n + 1, 10 ** 20, 5, 255])
    if k < 0.9:
        s = rng.choice(INVALID)
        if rng.random() < 0.3:
            # splice real positions into an invalid shape
            s = s.replace("5", str(max(0, _pos(rng, n)) % 1000), 1)
        return s
    if k < 0.95:
        return rng.choice(DEGENERATE)
    return rng.choice(UNSPEC)


def gen_cond(rng):
    conds = []
    k = rng.random()
    if k < 0.25:
        conds.append(("inm", rng.choice(["exact", "weak", "other", "weak-other", "list-with", "list-without", "star", "unquoted",
                                         "empty", "garbage", "upper"])))
    if rng.random() < 0.25:
        conds.append(("ims", rng.choice([-86400, -1, 0, 1, 86400, "garbage", "empty", "rfc850", "asctime", "feb31", "tz"])))
    return conds


HIST_SIZES = [0, 1, 2, 3, 10, 50, 80, 255, 256, 1000]
HIST_NAMES = ["m0.bin", "m1.bin", "sub/m2.bin"]


def vcontent(n, ver):
    """Content of version `ver` of a rewritten file: differs from every other version at every position."""
    return bytes((i * 7 + (i >> 8) * 13 + n + 31 * ver + 5) % 251 for i in range(n))


def gen_history(rng):
    """One path: write v0, requests, rewrite, requests ...; sizes mostly differ between consecutive versions, the
    mtime moves forward, backward or not at all, requests aim at positions around the current AND the previous size."""
    steps = []
    prev = None
    mt = rng.choice([0, 0, 7200])
    for ver in range(rng.choice([2, 2, 3, 4])):
        n = rng.choice(HIST_SIZES) if rng.random() < 0.9 else rng.choice([70000, 65536, rng.randint(0, 400)])
        if prev is not None and n == prev and rng.random() < 0.7:
            n = prev + rng.choice([1, 5, 30]) if rng.random() < 0.5 else max(0, prev - rng.choice([1, 5, 30]))
        if ver:
            mt += rng.choice([0, 1, 3600, 3600, -3600, 86400])
        steps.append({"write": {"size": n, "ver": ver, "mtime": mt, "how": rng.choice(["inplace", "inplace", "replace"])}})
        for _ in range(rng.choice([1, 1, 2, 3])):
            r = rng.random()
            rv = gen_range(rng, n if prev is None or r < 0.6 else prev)
            cond = gen_cond(rng)
            if ver and rng.random() < 0.15:
                cond = [("inm", "stale")] if rng.random() < 0.6 else [("ims", "stale")]
            steps.append({"req": {"range": rv, "cond": cond, "method": rng.choice(["GET", "GET", "HEAD"])}})
        prev = n
    return {"hist": {"name": rng.choice(HIST_NAMES), "steps": steps}}


def gen_cases(spec):
    rng = core.rng_for(spec["seed"], PROP, spec["shard"])
    for _ in range(spec["n"]):
        if rng.random() < 0.1:
            yield gen_history(rng)
            continue
        n = rng.choice(SIZES)
        yield {"size": n, "range": gen_range(rng, n), "cond": gen_cond(rng), "method": rng.choice(["GET", "GET", "HEAD"])}


def directed_cases():
    for rv in ["bytes=1_0-", "bytes=+5-", "bytes= 1 - 2 ", "bytes=1--2", "bytes=--5", "bytes=\xa05-", "bytes=0-0", "bytes=-1", "bytes=255-",
               "bytes=254-254", "bytes=0-254", "bytes=0-", "bytes=-0", "bytes=300-", "bytes=7-3"]:
        yield {"size": 255, "range": rv, "cond": [], "method": "GET"}
    yield {"size": 0, "range": "bytes=0-", "cond": [], "method": "GET"}
    # positions written with more digits than int() converts by default: 200/206/416 as for any other number, never 5xx
    for rv in ["bytes=10-" + "9" * 5000, "bytes=" + "9" * 4301 + "-", "bytes=-" + "1" + "0" * 4300, "bytes=" + "0" * 4400 + "5-" + "0" * 4400 + "9",
               "bytes=0-" + "9" * 4300, "bytes=+" + "9" * 5000 + "-", "bytes=1_" + "0" * 5000 + "-", "bytes=0-1," + "9" * 5000 + "-"]:
        yield {"size": 255, "range": rv, "cond": [], "method": "GET"}
    yield {"size": 10, "range": "bytes=2-" + "7" * 4301, "cond": [], "method": "HEAD"}
    yield {"size": 10, "range": "bytes=2-5", "cond": [("inm", "exact")], "method": "HEAD"}
    yield {"size": 10, "range": None, "cond": [("ims", 0)], "method": "GET"}
    yield {"size": 10, "range": None, "cond": [("ims", -1)], "method": "GET"}
    # a path that is rewritten between requests: shorter, longer, same length
    W = lambda n, v, mt, how="inplace": {"write": {"size": n, "ver": v, "mtime": mt, "how": how}}      # noqa: E731
    R = lambda rv, m="GET", cond=(): {"req": {"range": rv, "cond": list(cond), "method": m}}            # noqa: E731
    yield {"hist": {"name": "m0.bin", "steps": [W(50, 0, 0), R(None), R("bytes=5-14"), W(80, 1, 3600), R(None), R("bytes=-10"), R("bytes=60-"),
                                                W(20, 2, 7200, "replace"), R("bytes=-10", "HEAD"), R(None), R("bytes=15-"),
                                                W(20, 3, 7200), R(None, "GET", [("inm", "stale")]), R("bytes=0-4")]}}
    yield {"hist": {"name": "sub/m2.bin", "steps": [W(10, 0, 0), R("bytes=2-5", "HEAD"), W(0, 1, 0), R(None), R("bytes=0-"),
                                                    W(300, 2, -3600), R("bytes=250-", "GET"), R(None, "GET", [("ims", "stale")])]}}


# ------------------------------------------------------------------ oracle

STRICT = re.compile(r"bytes=(?:([0-9]+)-([0-9]*)|-([0-9]+))\Z")


def _num(digits):
    """Value of a string of ASCII digits of any length (int() refuses more than sys.get_int_max_str_digits())."""
    v = 0
    for i in range(0, len(digits), 4000):
        chunk = digits[i:i + 4000]
        v = v * 10 ** len(chunk) + int(chunk)
    return v


def classify_range(value, n):
    """value: header value as a str after OWS trimming.  -> (class, a, b)
    class in none | ignore | range | unsat | unspec"""
    if value is None:
        return ("none", None, None)
    v = value.strip(" \t")
    m = STRICT.match(v)
    if not m:
        if re.fullmatch(r"bytes=[0-9]+", v):
            # a bare number without "-": not a byte-range-spec, but the repository's own test-suite
            # (web_test test_static_unsatisfiable_range_invalid_start) relies on it being read as "N-"
            return ("unspec", None, None)
        mu = re.fullmatch(r"(?i)(bytes)=(.*)", v)
        if mu:
            parts = [p.strip(" \t") for p in mu.group(2).split(",")]
            nonempty = [p for p in parts if p]
            if len(nonempty) == 1 and STRICT.match("bytes=" + nonempty[0]) and (mu.group(1) != "bytes" or len(parts) > 1):
                return ("unspec", None, None)   # one well-formed spec; unit in another case and/or empty list elements
        return ("ignore", None, None)
    if m.group(3) is not None:
        s = _num(m.group(3))
        if s == 0 or n == 0:
            return ("unsat", None, None)
        return ("range", max(0, n - s), n - 1)
    a = _num(m.group(1))
    if m.group(2) != "":
        b = _num(m.group(2))
        if b < a:
            return ("unsat", None, None)       # inverted: RFC calls the spec invalid; 416 or ignore both accepted
        if a >= n:
            return ("unsat", None, None)
        return ("range", a, min(b, n - 1))
    if a >= n:
        return ("unsat", None, None)
    return ("range", a, n - 1)


DAYS = ["Mon", "Tue", "Wed", "Thu", "Fri", "Sat", "Sun"]
MONTHS = ["Jan", "Feb", "Mar", "Apr", "May", "Jun", "Jul", "Aug", "Sep", "Oct", "Nov", "Dec"]


def httpdate(t, style="fix"):
    import datetime
    dt = datetime.datetime(1970, 1, 1) + datetime.timedelta(seconds=t)
    if style == "rfc850":
        full = ["Monday", "Tuesday", "Wednesday", "Thursday", "Friday", "Saturday", "Sunday"][dt.weekday()]
        return "%s, %02d-%s-%02d %02d:%02d:%02d GMT" % (full, dt.day, MONTHS[dt.month - 1], dt.year % 100, dt.hour, dt.minute, dt.second)
    if style == "asctime":
        return "%s %s %2d %02d:%02d:%02d %04d" % (DAYS[dt.weekday()], MONTHS[dt.month - 1], dt.day, dt.hour, dt.minute, dt.second, dt.year)
    if style == "tz":
        return "%s, %02d %s %04d %02d:%02d:%02d +0100" % (DAYS[dt.weekday()], dt.day, MONTHS[dt.month - 1], dt.year, dt.hour, dt.minute, dt.second)
    return "%s, %02d %s %04d %02d:%02d:%02d GMT" % (DAYS[dt.weekday()], dt.day, MONTHS[dt.month - 1], dt.year, dt.hour, dt.minute, dt.second)


def build_cond(conds, etag: str, mtime=MTIME, stale=None):
    """-> (headers, verdict) verdict in must304 | mustnot304 | unspec | none
    `stale` = (etag, mtime) of the previous version of a rewritten file, for the "stale" validators."""
    headers = []
    inm_v = ims_v = None
    for kind, spec in conds:
        if spec == "stale":
            if stale is None:
                continue
            if kind == "inm":
                headers.append(("If-None-Match", stale[0]))
                # a validator of other content: RFC 7232 compares opaque strings; equal strings (same content
                # again) would legitimately match
                inm_v = "mustnot304" if stale[0] != etag else "must304"
            else:
                headers.append(("If-Modified-Since", httpdate(stale[1])))
                ims_v = "must304" if stale[1] >= mtime else "mustnot304"
            continue
        if kind == "inm":
            other = '"0123456789abcdef"'
            val, inm_v = {
                "exact": (etag, "must304"), "weak": ("W/" + etag, "must304"), "other": (other, "mustnot304"),
                "weak-other": ("W/" + other, "mustnot304"), "list-with": (other + ", " + etag, "must304"),
                "list-without": (other + ', "zz"', "mustnot304"), "star": ("*", "must304"),
                "unquoted": (etag.strip('"'), "unspec"), "empty": ('""', "mustnot304"), "garbage": ("garbage,,\"", "unspec"),
                "upper": (etag.upper(), "mustnot304" if etag.upper() != etag else "must304"),
            }[spec]
            headers.append(("If-None-Match", val))
        else:
            if isinstance(spec, int):
                headers.append(("If-Modified-Since", httpdate(mtime + spec)))
                ims_v = "must304" if spec >= 0 else "mustnot304"
            elif spec == "garbage":
                headers.append(("If-Modified-Since", "yesterday-ish"))
                ims_v = "mustnot304"
            elif spec == "feb31":
                headers.append(("If-Modified-Since", "Mon, 31 Feb 2070 00:00:00 GMT"))
                ims_v = "mustnot304"
            elif spec == "empty":
                headers.append(("If-Modified-Since", ""))
                ims_v = "unspec"
            else:
                headers.append(("If-Modified-Since", httpdate(mtime + 5, spec)))
                ims_v = "unspec"
    if inm_v is not None:
        # RFC 7232 §3.3/§6: If-Modified-Since is ignored when If-None-Match is present
        return headers, inm_v
    return headers, (ims_v or "none")


# ------------------------------------------------------------------ session

def make_session(lm):
    extra = {"root/s%d.bin" % n: content(n) for n in SIZES}
    fx = Fixture(extra_files=extra)
    for n in SIZES:
        os.utime(fx.root + "/s%d.bin" % n, (MTIME, MTIME))
    os.makedirs(fx.root + "/sub", exist_ok=True)
    app = tornado.web.Application([(r"/f/(.*)", tornado.web.StaticFileHandler, {"path": fx.root})], log_function=lambda h: None)
    s = webrig.Session(app, lm)
    s.fx = fx
    s.cleanup.append(fx.remove)
    s.etags = {}
    tornado.web.StaticFileHandler.reset()
    return s


async def baseline(ctx, sess, n):
    if n in sess.etags:
        return sess.etags[n]
    r = await sess.request(webrig.build_request("GET", "/f/s%d.bin" % n), "GET")
    F = content(n)
    ok = r is not None and r.status == 200 and r.body == F and r.framing == "cl"
    et = r.get("etag").decode("latin-1") if r is not None and r.get("etag") else None
    lm = r.get("last-modified") if r is not None else None
    ctx.count("oracle_evals")
    if not ok or not et or lm != httpdate(MTIME).encode():
        ctx.violation("baseline/plain-get-not-exact", "GET without Range/conditionals is not 200 + whole file + ETag + Last-Modified",
                      {"size": n, "status": r and r.status, "etag": et, "last_modified": lm, "body_len": r and len(r.body)})
        sess.etags[n] = None
        return None
    sess.etags[n] = et
    return et


def judge(ctx, case, r, F, rcls, cverdict, wit):
    """All checks on one GET response (or on the HEAD response's head with body checks skipped by caller)."""
    n = len(F)
    cls, a, b = rcls
    head_only = case["method"] == "HEAD"

    def bad(mech, what):
        ctx.violation(mech, what, wit)
        return False

    ctx.count("oracle_evals")
    if r.status not in (200, 206, 304, 416):
        return bad(f"status-{r.status}", "status outside {200,206,304,416}")
    ctx.count(f"status_{r.status}")
    if r.status != 304 and not head_only and r.framing != "cl":      # (a HEAD response has no body to frame)
        return bad(f"framing-{r.framing}", "static response not framed by Content-Length")
    if cverdict == "must304":
        ctx.count("expect_304_evals")
        if r.status != 304:
            return bad(f"conditional/not-304/{_ckind(case)}", "matching validator did not produce 304")
    if cverdict == "mustnot304":
        ctx.count("expect_304_evals")
        if r.status == 304:
            return bad(f"conditional/unexpected-304/{_ckind(case)}", "304 although the validator does not match / must be ignored")
    if cverdict == "none" and r.status == 304:
        return bad("conditional/304-without-conditional", "304 without any conditional header")
    if r.status == 304:
        if r.body:
            return bad("304-with-body", "304 carries a body")
        return True
    cl = r.get("content-length")
    cr = r.get("content-range")
    if r.status == 200:
        if cls in ("ignore", "none"):
            ctx.count("range_invalid_evals" if cls == "ignore" else "no_range_evals")
        if (not head_only and r.body != F) or cl != str(n).encode():
            shape = "range-syntax-invalid" if cls == "ignore" else cls
            return bad(f"200-not-whole-file/{shape}", "200 whose body/Content-Length is not the whole file")
        if cr is not None:
            return bad("200-with-content-range", "200 carries Content-Range")
        if cls == "range":
            ctx.count("range_valid_evals")
            if not (a == 0 and b == n - 1):
                ctx.count("unspecified_valid_range_ignored")
        return True
    if r.status == 416:
        if cr != b"bytes */%d" % n:
            return bad("416-content-range", "416 without Content-Range 'bytes */size'")
        if r.body:
            ctx.count("unspecified_416_body")
        if cls in ("ignore", "none"):
            ctx.count("range_invalid_evals")
            return bad(f"invalid-range-honoured/416/{_rshape(case['range'])}",
                       "a Range header outside the strict single-range grammar changed the response (416 instead of 200)")
        if cls == "range":
            ctx.count("range_valid_evals")
            return bad("416-for-satisfiable-range", "416 although the range overlaps the file")
        return True
    # 206
    m = re.fullmatch(rb"bytes ([0-9]+)-([0-9]+)/([0-9]+)", cr or b"")
    if not m:
        return bad("206-content-range-malformed", "206 without a well-formed Content-Range")
    ga, gb, gn = _num(m.group(1).decode()), _num(m.group(2).decode()), _num(m.group(3).decode())
    if gn != n or ga > gb or gb >= n:
        return bad("206-content-range-inconsistent", "206 Content-Range does not describe a range of this file")
    if cl != str(gb - ga + 1).encode() or (not head_only and r.body != F[ga:gb + 1]):
        return bad("206-body-differs-from-content-range", "206 body/Content-Length is not bytes a..b of the file")
    if cls in ("ignore", "none"):
        ctx.count("range_invalid_evals")
        return bad(f"invalid-range-honoured/206/{_rshape(case['range'])}",
                   "a Range header outside the strict single-range grammar changed the response (206 instead of 200)")
    if cls == "range":
        ctx.count("range_valid_evals")
        if (ga, gb) != (a, b):
            return bad("206-wrong-range", "206 for a different range than RFC 7233 arithmetic gives")
    elif cls == "unsat":
        return bad("206-for-unsatisfiable-range", "206 although no byte of the file is in the requested range")
    return True


def _ckind(case):
    """Kind of the deciding conditional header (If-None-Match wins when present)."""
    d = dict(case["cond"])
    if "inm" in d:
        return "inm-" + d["inm"]
    s = d.get("ims")
    return "ims-" + (str(s) if not isinstance(s, int) else ("past" if s < 0 else "now-or-future"))


def _short(v):
    """Witness form of a very long header value (the case itself keeps the full value for replay)."""
    if v is None or len(v) <= 200:
        return v
    return "%s...<%d characters, longest digit run %d>...%s" % (v[:40], len(v), _maxrun(v), v[-24:])


def _maxrun(v):
    return max((len(x) for x in re.findall(r"[0-9]+", v or "")), default=0)


def _count_huge(ctx, rv, rcls):
    """Counters for positions written with very many digits (class by class, so an absent class is visible)."""
    run = _maxrun(rv)
    if run < 600:
        return
    ctx.count("huge_digit_range_evals")
    if run > 4300:
        ctx.count("huge_over_4300_digits_evals")
        ctx.count("huge_over_4300_digits_" + ("strict_valid" if rcls[0] in ("range", "unsat") else "other"))


def _rshape(v):
    """Crude shape of an invalid Range value (classifier only)."""
    if v is None:
        return "none"
    tags = []
    if re.search(r"[+]", v):
        tags.append("plus-sign")
    if "_" in v:
        tags.append("underscore")
    if re.search(r"[ \t]", v.strip(" \t")):
        tags.append("inner-space")
    if re.search(r"[\x80-\xff]", v):
        tags.append("non-ascii")
    if "--" in v or re.search(r"=-[0-9]*-", v):
        tags.append("extra-dash")
    return "+".join(tags) or "other"


async def acase(case, ctx, sess):
    if "hist" in case:
        return await ahistory(case, ctx, sess)
    n = case["size"]
    F = content(n)
    et = await baseline(ctx, sess, n)
    if et is None:
        return
    headers, cverdict = build_cond(case["cond"], et)
    rv = case["range"]
    if rv is not None:
        headers = [("Range", rv)] + headers
    rcls = classify_range(rv, n)
    path = "/f/s%d.bin" % n

    async def do(method):
        try:
            return await sess.request(webrig.build_request(method, path, headers), method)
        except webrig.WireError as e:
            ctx.violation(f"wire/{e.kind}", "response is not a well-framed HTTP message", {"why": e.why, "raw": e.raw, "case": case})
            return False

    r = await do("GET")
    if r is False:
        return
    _count_huge(ctx, rv, rcls)
    wit = {"size": n, "range": _short(rv), "cond_headers": [(k, _short(v)) for k, v in headers], "range_class": [str(x)[:60] for x in rcls],
           "cond_verdict": cverdict, "status": r.status if r else None, "content_range": r.get("content-range") if r else None,
           "content_length": r.get("content-length") if r else None, "body_len": len(r.body) if r else None}
    if not webrig.safety(ctx, sess, r, "static range request"):
        return
    if r is None:
        ctx.violation("no-response", "connection closed without a response", wit)
        return
    if r.status == 400 and rv is not None and re.search(r"[\x00-\x08\x0a-\x1f\x7f]", rv):
        ctx.count("skipped_http_layer_reject")
        return
    g = dict(case, method="GET")
    ok = judge(ctx, g, r, F, rcls, cverdict, wit)
    if ok and case["method"] == "HEAD":
        rh = await do("HEAD")
        if rh is False:
            return
        webrig.safety(ctx, sess, rh, "static HEAD request")
        ctx.count("head_pair_evals")
        ctx.count("oracle_evals")
        same = rh is not None and rh.status == r.status and rh.body == b"" and all(
            rh.get(h) == r.get(h) for h in ("content-length", "content-range", "etag", "last-modified", "content-type", "accept-ranges"))
        if not same:
            ctx.violation("head-differs-from-get", "HEAD does not yield the same status and headers as GET (or carries a body)",
                          dict(wit, head_status=rh and rh.status, head_headers=rh and rh.headers, get_headers=r.headers))
            return
    nontriv = (rcls[0] == "ignore" and rv not in DEGENERATE) or (rcls[0] == "range" and not (rcls[1] == 0 and rcls[2] == n - 1)) \
        or rcls[0] == "unsat" or cverdict in ("must304", "mustnot304")
    if rcls[0] == "unspec":
        ctx.count("unspecified_range_forms")
    if ctx.mark((n, rv, tuple(case["cond"]), case["method"]), nontriv) and nontriv and rcls[0] == "ignore":
        ctx.sample(wit)


class _Recorder:
    """ctx view that holds violations back until the caller has classified them (counters pass through unless
    `silent`)."""

    def __init__(self, ctx, silent=False):
        self._ctx, self._silent = ctx, silent
        self.pending = []

    def count(self, key, n=1):
        if not self._silent:
            self._ctx.count(key, n)

    def violation(self, mechanism, what, witness):
        self.pending.append((mechanism, what, witness))

    def flush(self, prefix=""):
        for mechanism, what, witness in self.pending:
            self._ctx.violation(prefix + mechanism, what, witness)
        del self.pending[:]


def write_version(path, data, mtime, how):
    if how == "replace":
        tmp = path + ".new"
        with open(tmp, "wb") as f:
            f.write(data)
        os.utime(tmp, (mtime, mtime))
        os.replace(tmp, path)
    else:
        with open(path, "wb") as f:
            f.write(data)
        os.utime(path, (mtime, mtime))


async def ahistory(case, ctx0, sess):
    """Write / request steps on one path; each response is judged against the file as it is at that moment.

    A failing request is repeated on a path that has never been served before and holds the same bytes and mtime:
    if it is answered correctly there, the failure is attributed to the rewrite (mechanism prefix `rewritten-file/`),
    otherwise it is the history-independent defect the plain cases report under the same key."""
    h = case["hist"]
    ctx = _Recorder(ctx0)
    path = "/f/" + h["name"]
    fs_path = sess.fx.root + "/" + h["name"]
    F = None
    mtime = None
    etag = None            # ETag of the current version once a plain GET has shown it
    prev = None            # (etag, mtime, size) of the previous version
    nreq_since_write = 0
    size_changed = False
    nontriv = False
    last = {}              # the request being judged (for the fresh-path probe)
    ctx.count("history_cases")
    webrig.safety(ctx0, sess, None, "request before the history")      # late log records belong to earlier cases

    async def do(method, headers, target=None, rec=None):
        try:
            return await sess.request(webrig.build_request(method, target or path, headers), method)
        except webrig.WireError as e:
            (rec or ctx).violation(f"wire/{e.kind}", "response is not a well-framed HTTP message",
                                   {"why": e.why, "raw": e.raw, "file_size": len(F), "history": h})
            return False

    async def correct_on_fresh_path():
        if not last:
            return False
        sess.fresh_paths = getattr(sess, "fresh_paths", 0) + 1
        rel = "fresh/p%d.bin" % sess.fresh_paths
        os.makedirs(sess.fx.root + "/fresh", exist_ok=True)
        write_version(sess.fx.root + "/" + rel, F, mtime, "inplace")
        null = _Recorder(ctx0, silent=True)
        sess.take_uncaught()
        for method in ([last["method"]] if last["method"] == "GET" else ["HEAD", "GET"]):
            r = await do(method, last["headers"], "/f/" + rel, null)
            if r is False or r is None or sess.take_uncaught():
                return False
            if not judge(null, {"method": method, "range": last["range"], "cond": last["cond"]}, r, F, last["rcls"], last["cverdict"], {}):
                return False
        return not null.pending

    async def settle_violations():
        if ctx.pending:
            ctx0.count("history_fresh_path_probes")
            ctx.flush("rewritten-file/" if await correct_on_fresh_path() else "")
            return True
        return False

    async def current_etag():
        nonlocal etag
        if etag is None:
            last.update(method="GET", headers=[], range=None, cond=[], rcls=classify_range(None, len(F)), cverdict="none")
            r = await do("GET", [])
            ctx.count("oracle_evals")
            if r is False:
                return None
            webrig.safety(ctx, sess, r, "static request after rewrite")
            if r is None or r.status != 200 or r.body != F or not r.get("etag"):
                ctx.violation("plain-get-not-exact", "GET without Range/conditionals is not 200 + the current file + ETag",
                              {"file_size": len(F), "status": r and r.status, "body_len": r and len(r.body),
                               "content_length": r and r.get("content-length"), "history": h})
                return None
            etag = r.get("etag").decode("latin-1")
        return etag

    async def request_step(q):
        """-> False to abandon the history (a violation is pending or the exchange cannot be judged)."""
        nonlocal etag, nreq_since_write, nontriv
        n = len(F)
        needs_etag = any(k == "inm" for k, _ in q["cond"])
        stale = None
        if any(sp == "stale" for _, sp in q["cond"]) and prev is not None and prev[0] is not None:
            stale = (prev[0], prev[1])
        et = None
        if needs_etag:
            et = await current_etag()
            if et is None:
                return False
        headers, cverdict = build_cond(q["cond"], et, mtime, stale)
        rv = q["range"]
        if rv is not None:
            headers = [("Range", rv)] + headers
        rcls = classify_range(rv, n)
        first = q["method"]
        last.update(method=first, headers=headers, range=rv, cond=q["cond"], rcls=rcls, cverdict=cverdict)
        r = await do(first, headers)
        if r is False:
            return False
        _count_huge(ctx, rv, rcls)
        wit = {"size": n, "range": _short(rv), "cond_headers": [(k, _short(v)) for k, v in headers], "range_class": [str(x)[:60] for x in rcls],
               "cond_verdict": cverdict, "method": first,
               "status": r.status if r else None, "content_range": r.get("content-range") if r else None,
               "content_length": r.get("content-length") if r else None, "body_len": len(r.body) if r else None,
               "previous_version": prev and {"size": prev[2], "mtime": prev[1]}, "mtime": mtime, "history": h}
        if not webrig.safety(ctx, sess, r, "static request on a rewritten path"):
            return False
        if r is None:
            ctx.violation("no-response", "connection closed without a response", wit)
            return False
        if r.status == 400 and rv is not None and re.search(r"[\x00-\x08\x0a-\x1f\x7f]", rv):
            ctx.count("skipped_http_layer_reject")
            return True
        if prev is not None:
            ctx.count("history_requests_after_rewrite")
            if size_changed:
                ctx.count("history_size_changed_evals")
                nontriv = True
            if nreq_since_write == 0 and not needs_etag:
                if rcls[0] in ("range", "unsat"):
                    ctx.count("history_first_after_rewrite_ranged")
                if first == "HEAD":
                    ctx.count("history_first_after_rewrite_head")
            if stale is not None:
                ctx.count("history_stale_validator_evals")
        nreq_since_write += 1
        if first == "HEAD" and r.body:
            ctx.violation("head-with-body", "HEAD response carries a body", wit)
            return False
        if not judge(ctx, {"method": first, "range": rv, "cond": q["cond"]}, r, F, rcls, cverdict, wit):
            return False
        if r.status == 200 and rv is None and not q["cond"] and first == "GET" and r.get("etag"):
            etag = r.get("etag").decode("latin-1")
        if first == "HEAD":
            # the GET for the same request must agree with the HEAD (and is judged with its body)
            rg = await do("GET", headers)
            if rg is False:
                return False
            if not webrig.safety(ctx, sess, rg, "static GET after HEAD"):
                return False
            if rg is None:
                ctx.violation("no-response", "connection closed without a response", wit)
                return False
            if not judge(ctx, {"method": "GET", "range": rv, "cond": q["cond"]}, rg, F, rcls, cverdict,
                         dict(wit, method="GET", status=rg.status, content_range=rg.get("content-range"),
                              content_length=rg.get("content-length"), body_len=len(rg.body))):
                return False
            ctx.count("head_pair_evals")
            ctx.count("oracle_evals")
            same = r.status == rg.status and all(
                r.get(x) == rg.get(x) for x in ("content-length", "content-range", "etag", "last-modified", "content-type", "accept-ranges"))
            if not same:
                ctx.violation("head-differs-from-get", "HEAD does not yield the same status and headers as GET",
                              dict(wit, head_headers=r.headers, get_headers=rg.headers))
                return False
        return True

    for step in h["steps"]:
        if "write" in step:
            w = step["write"]
            if F is not None:
                prev = (etag, mtime, len(F))
                ctx.count("history_rewrites")
            F = vcontent(w["size"], w["ver"])
            mtime = MTIME + w["mtime"]
            write_version(fs_path, F, mtime, w["how"])
            size_changed = prev is not None and prev[2] != len(F)
            etag = None
            nreq_since_write = 0
            continue
        go_on = await request_step(step["req"])
        if await settle_violations() or not go_on:
            return
    ctx0.mark(("hist", h["name"], repr(h["steps"])), nontriv)


def run_shard(spec, ctx):
    import itertools
    directed = list(directed_cases()) if spec.get("shard", 0) == 0 else []
    ctx.count("directed_cases", len(directed))
    webrig.run_cases(make_session, itertools.chain(directed, gen_cases(spec)), acase, ctx)


def run_case(case, ctx):
    webrig.run_cases(make_session, [case], acase, ctx, count_evals=False)
