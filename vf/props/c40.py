"""C40 — SelectorThread / AddThreadSelectorEventLoop never deadlocks, loses events or hangs on close.

Real two-thread executions of `AddThreadSelectorEventLoop(asyncio.new_event_loop())`
under yield injection (sys.monitoring LINE events on the SelectorThread code
objects only + setswitchinterval(1e-6)), observed through hooks installed from
outside the repository:

* wrappers on SelectorThread.__init__/_start_select/_handle_select/_wake_selector/
  _consume_waker/_run_select/close/add_*/remove_* that append (thread-role, event)
  to one trace under the monitor's own lock;
* a proxy for the module-level name `tornado.platform.asyncio.select` that brackets
  every select.select call (overlap counter under the same lock).

Online oracle: at most one select in progress; the handshake subsequence is a
prefix of (start_select select_enter select_exit [select_enter select_exit]* handle_select)*;
_start_select/_handle_select/reader+writer callbacks only on the loop thread;
select only on the selector thread.  Token accounting: every 4-byte token written
to a socketpair whose read end is registered at a barrier is consumed by its
reader callback before the barrier completes; every add_writer on a writable fd
is dispatched.  close()/shutdown_asyncgens/_atexit_callback return with the
selector thread stopped.

No verdict from elapsed time.  When the scenario thread makes no progress the
harness inspects the *structure* of the state (sys._current_frames(), monitor
state, Condition._waiters, waker socket, _select_args, registered fds with unread
data) and reports a violation only for a state that no future event can repair,
seen unchanged on 3 consecutive samples; a watchdog expiry without such a witness
makes the shard INCONCLUSIVE.
"""
from __future__ import annotations

import asyncio
import os
import queue
import select as _real_select
import socket
import struct
import threading
import time

from vf import core, shake
from vf.logmon import LogMon

core.use_repo()
import tornado.platform.asyncio as tpa  # noqa: E402
from tornado.platform.asyncio import AddThreadSelectorEventLoop, SelectorThread  # noqa: E402

PROP = "C40"
META = {
    "level": "exploration",
    "technique": "trace-specification monitor + token accounting over real two-thread executions under sys.monitoring yield injection; structural stuck-state witnesses",
    "level_text": "Generated scripts of add/remove reader/writer, re-registration, close-after-remove, bursts of writes from a third "
                  "thread and all close paths run on the real SelectorThread with seeded sleeps at every statement of its code; the "
                  "recorded trace of both threads is checked online against the handshake specification, select overlap counter, "
                  "thread affinity of callbacks, token conservation at barriers and thread termination after close.",
    "level_note": "The '(model checked)' half of the quantifier is not attempted: interleavings are sampled, evidence reports how "
                  "many distinct (thread,event) sequences were seen. Linux select(); fds are registered as ints (as IOLoop does), "
                  "as socket objects (fileno() of a closed one is -1) or as non-socket file objects (raw FileIO / BufferedReader "
                  "over a dup of the descriptor: fileno() of a closed one RAISES ValueError). Liveness is bounded: 'dispatched before the barrier completes'.",
    "design_ref": "DESIGN.md §4 C40",
    "engine": "shake+monitor",
}
RULE = ("a case = (1-8 socketpairs, fd key type int|socket|file (unbuffered FileIO)|bfile (BufferedReader), script over {add_r, rm_r, readd_r, add_w, rm_w, burst from a writer "
        "thread, send from the loop thread, peer close, remove+close, yield, barrier}, close path in {close, shutdown_asyncgens+close, "
        "close twice, _atexit_callback+close, close before the loop ever ran, close with a dispatch still queued}, shake seed); "
        "non-trivial if the script has >=1 registration change after the first barrier or >=2 fds, and >=1 token; distinct by case tuple")
FLOORS = {"quick": 150, "thorough": 8000}
ASSUMPTIONS = [
    "Linux select semantics; AF_UNIX socketpairs",
    "a stuck state is reported only with a structural witness stable over 3 samples; otherwise INCONCLUSIVE",
    "closing an fd that is still registered is outside the statement (scripts remove before closing)",
]
REQUIRED_COUNTERS = ["oracle_evals", "runs", "trace_events", "select_calls", "handle_selects", "tokens_consumed",
                     "barriers", "closes_checked", "writer_dispatches", "shake_lines", "runs_key_sock", "runs_key_file",
                     "runs_key_bfile", "file_object_keys_closed_after_remove"]
SHARD_TIMEOUT = {"quick": 200, "thorough": 3000}
WATCHDOG = 45.0


def shards(tier, seed):
    q = tier == "quick"
    return [{"n": 20 if q else 650, "j": j} for j in range(16 if q else 32)]


# ---------------------------------------------------------------------------
# hooks (installed once per process, dispatching to the current monitor)

MON = None            # current Monitor or None
_ORIG = {}
_CODES = None
ABORT = []            # non-empty: a stuck run polluted this process; remaining cases are skipped
THREAD_ERRORS = []


class Monitor:
    """All state is read and written under self.lock (a leaf lock: nothing is called while holding it)."""

    def __init__(self):
        self.lock = threading.Lock()
        self.events = []            # (role, event)
        self.st = None              # the SelectorThread instance of this run
        self.loop_ident = None
        self.sel_ident = None
        self.state = 0              # 0 idle, 1 armed, 2 in select, 3 selected
        self.in_select = 0
        self.cur_args = None
        self.nsel = 0
        self.exits = 0
        self.handles = 0
        self.handle_active = 0
        self.close_active = 0
        self.atexit_active = 0
        self.viol = []              # (mechanism, what, witness)
        self.sel_alive = False

    def role(self):
        i = threading.get_ident()
        if i == self.loop_ident:
            return "L"
        if i == self.sel_ident:
            return "S"
        return "X"

    def ev(self, event, expect_role=None):
        """Record one event; run the online spec. Returns the role."""
        with self.lock:
            r = self.role()
            self.events.append((r, event))
            if expect_role is not None and r != expect_role:
                self.viol.append((f"affinity/{event}-on-thread-{r}", f"{event} executed on thread role {r}, expected {expect_role}",
                                  {"tail": self.events[-8:]}))
            if event in ("start_select", "select_enter", "select_exit", "handle_select"):
                s = self.state
                ok = True
                if event == "start_select":
                    ok = s == 0
                    self.state = 1
                elif event == "select_enter":
                    ok = s in (1, 3)
                    self.state = 2
                elif event == "select_exit":
                    ok = s == 2
                    self.state = 3
                    self.exits += 1 if s == 2 else 0
                else:
                    ok = s == 3
                    self.state = 0
                    self.handles += 1
                if not ok:
                    self.viol.append((f"trace/{event}-in-state-{s}",
                                      "handshake trace is not a prefix of (start_select select_enter select_exit handle_select)*",
                                      {"tail": self.events[-10:]}))
            return r

    def snapshot(self):
        with self.lock:
            return {"state": self.state, "nev": len(self.events), "args": self.cur_args, "in_select": self.in_select,
                    "pending_handles": self.exits_since_handle(), "handle_active": self.handle_active,
                    "close_active": self.close_active, "atexit_active": self.atexit_active}

    def exits_since_handle(self):
        # a select round that returned (first exit of the round) and whose _handle_select has not started yet
        return 1 if self.state == 3 else 0


class _SelectProxy:
    """Stands in for the `select` module inside tornado.platform.asyncio."""

    def __getattr__(self, name):
        return getattr(_real_select, name)

    @staticmethod
    def select(r, w, x, timeout=None):
        m = MON
        if m is None or threading.get_ident() != m.sel_ident:
            return _real_select.select(r, w, x, timeout)
        with m.lock:
            m.in_select += 1
            m.nsel += 1
            if m.in_select > 1:
                m.viol.append(("select/two-selects-in-progress", "a second select call started while one was in progress",
                               {"tail": m.events[-8:]}))
            if timeout is None:
                m.cur_args = (list(r), list(w))
        m.ev("select_enter", "S")
        try:
            return _real_select.select(r, w, x, timeout)
        finally:
            with m.lock:
                m.in_select -= 1
            m.ev("select_exit", "S")


def _mine(self):
    m = MON
    return m if (m is not None and (m.st is self or m.st is None)) else None


def install_hooks():
    global _CODES
    if _ORIG:
        return
    names = ["__init__", "_start_select", "_handle_select", "_wake_selector", "_consume_waker", "_run_select", "close",
             "add_reader", "add_writer", "remove_reader", "remove_writer"]
    for n in names:
        _ORIG[n] = SelectorThread.__dict__[n]
    _CODES = shake.code_objects(*[v for k, v in vars(SelectorThread).items() if callable(v)])

    def w_init(self, real_loop):
        m = MON
        if m is not None and m.st is None:
            m.st = self
            m.loop_ident = threading.get_ident()
            m.ev("init", "L")
        return _ORIG["__init__"](self, real_loop)

    def w_start_select(self):
        m = _mine(self)
        if m is not None:
            m.ev("start_select", "L")
        return _ORIG["_start_select"](self)

    def w_handle_select(self, rs, ws):
        m = _mine(self)
        if m is None:
            return _ORIG["_handle_select"](self, rs, ws)
        with m.lock:
            m.handle_active += 1
        m.ev("handle_select", "L")
        try:
            return _ORIG["_handle_select"](self, rs, ws)
        finally:
            with m.lock:
                m.handle_active -= 1
            m.ev("handle_select_done")

    def w_wake(self):
        m = _mine(self)
        if m is not None:
            m.ev("wake")
        return _ORIG["_wake_selector"](self)

    def w_consume(self):
        m = _mine(self)
        if m is not None:
            m.ev("consume_waker", "L")
        return _ORIG["_consume_waker"](self)

    def w_run_select(self):
        m = _mine(self)
        if m is None:
            return _ORIG["_run_select"](self)
        with m.lock:
            m.sel_ident = threading.get_ident()
            m.sel_alive = True
        m.ev("thread_start", "S")
        try:
            return _ORIG["_run_select"](self)
        finally:
            m.ev("thread_end", "S")
            with m.lock:
                m.sel_alive = False

    def w_close(self):
        m = _mine(self)
        if m is None:
            return _ORIG["close"](self)
        with m.lock:
            m.close_active += 1
        m.ev("close_enter")
        try:
            return _ORIG["close"](self)
        finally:
            with m.lock:
                m.close_active -= 1
            m.ev("close_exit")

    def mk_reg(name):
        def w(self, fd, *a):
            m = _mine(self)
            if m is not None:
                m.ev(name)
            return _ORIG[name](self, fd, *a)
        return w

    SelectorThread.__init__ = w_init
    SelectorThread._start_select = w_start_select
    SelectorThread._handle_select = w_handle_select
    SelectorThread._wake_selector = w_wake
    SelectorThread._consume_waker = w_consume
    SelectorThread._run_select = w_run_select
    SelectorThread.close = w_close
    for n in ("add_reader", "add_writer", "remove_reader", "remove_writer"):
        setattr(SelectorThread, n, mk_reg(n))
    tpa.select = _SelectProxy()

    old_hook = threading.excepthook

    def hook(args):
        THREAD_ERRORS.append((args.thread.name if args.thread else "?", args.exc_type.__name__, repr(args.exc_value)[:200]))
        # keep stderr quiet for the expected mutant cases; the record is what matters
    threading.excepthook = hook


# ---------------------------------------------------------------------------
# generator

# how an fd is named in add_reader/add_writer/remove_*: the raw descriptor, the socket object, or a file object that is
# not a socket (io.FileIO / io.BufferedReader over a dup of the descriptor; once closed its fileno() raises ValueError
# where a closed socket's returns -1)
KEY_TYPES = ["int", "int", "int", "sock", "file", "bfile"]
FILE_KEYS = ("file", "bfile")

CLOSE_MODES = ["close", "close", "asyncgens", "twice", "atexit", "never_started", "queued"]


def gen_case(rng):
    n = rng.choice([1, 1, 2, 2, 3, 4, 8])
    ops = []
    L = rng.randint(4, 24)
    for _ in range(L):
        i = rng.randrange(n)
        r = rng.random()
        if r < 0.2:
            ops.append(("add_r", i))
        elif r < 0.3:
            ops.append(("rm_r", i))
        elif r < 0.37:
            ops.append(("add_w", i))
        elif r < 0.41:
            ops.append(("rm_w", i))
        elif r < 0.58:
            ops.append(("burst", i, rng.choice([1, 1, 2, 5, 20])))
        elif r < 0.68:
            ops.append(("send", i, rng.choice([1, 2, 3])))
        elif r < 0.8:
            ops.append(("yield", rng.choice([1, 1, 2, 5])))
        elif r < 0.92:
            ops.append(("barrier",))
        elif r < 0.95:
            ops.append(("rm_close", i))
        else:
            ops.append(("peer_close", i))
    return {"n": n, "key": rng.choice(KEY_TYPES), "ops": ops, "close": rng.choice(CLOSE_MODES),
            "p_yield": rng.choice([0.2, 0.4]), "p_sleep": rng.choice([0.02, 0.08, 0.2]), "sseed": rng.randrange(1 << 30)}


def gen_cases(spec):
    rng = core.rng_for(spec["seed"], PROP, spec["j"])
    for _ in range(spec["n"]):
        yield gen_case(rng)


def directed_cases():
    # late registration while the selector is parked in select, then data from another thread
    yield {"n": 2, "key": "int", "ops": [("yield", 5), ("barrier",), ("add_r", 0), ("burst", 0, 3), ("barrier",),
                                         ("add_r", 1), ("send", 1, 2), ("barrier",), ("rm_r", 0), ("add_r", 0),
                                         ("burst", 0, 1), ("add_w", 1), ("barrier",), ("rm_close", 1), ("burst", 0, 2)],
           "close": "close", "p_yield": 0.3, "p_sleep": 0.05, "sseed": 1}
    yield {"n": 1, "key": "sock", "ops": [("add_r", 0), ("barrier",), ("send", 0, 1), ("barrier",)],
           "close": "asyncgens", "p_yield": 0.3, "p_sleep": 0.05, "sseed": 2}
    # remove_reader + close of a socket *object* while the selector thread holds it in its next fd set
    # (fixes/C40-closed-socket-object-kills-selector-thread.patch)
    for sseed in (0, 1, 2, 3):
        yield {"n": 4, "key": "sock",
               "ops": [("add_r", 0), ("add_r", 1), ("add_r", 2), ("add_r", 3), ("send", 3, 1), ("barrier",),
                       ("rm_close", 0), ("send", 3, 1), ("barrier",), ("rm_close", 1), ("send", 3, 1), ("barrier",),
                       ("rm_close", 2), ("send", 3, 1), ("barrier",)],
               "close": "close", "p_yield": 0.3, "p_sleep": 0.2, "sseed": sseed}
    # the same with non-socket file objects as keys (a closed one raises ValueError from fileno()); readers and writers
    for key, sseed in (("file", 0), ("file", 1), ("file", 2), ("bfile", 3), ("bfile", 4), ("file", 5)):
        yield {"n": 4, "key": key,
               "ops": [("add_r", 0), ("add_r", 1), ("add_r", 2), ("add_r", 3), ("send", 3, 1), ("barrier",),
                       ("rm_close", 0), ("send", 3, 1), ("barrier",), ("rm_close", 1), ("send", 3, 1), ("barrier",),
                       ("rm_close", 2), ("send", 3, 1), ("barrier",)],
               "close": "close", "p_yield": 0.3, "p_sleep": 0.2, "sseed": sseed}
    for key, sseed in (("file", 6), ("bfile", 7)):
        yield {"n": 3, "key": key,
               "ops": [("add_r", 2), ("send", 2, 1), ("barrier",), ("add_w", 0), ("rm_close", 0), ("send", 2, 1),
                       ("barrier",), ("add_r", 1), ("add_w", 1), ("send", 2, 2), ("rm_close", 1), ("burst", 2, 3),
                       ("barrier",)],
               "close": "asyncgens", "p_yield": 0.3, "p_sleep": 0.2, "sseed": sseed}
    yield {"n": 1, "key": "int", "ops": [("add_r", 0)], "close": "never_started", "p_yield": 0.3, "p_sleep": 0.05,
           "sseed": 3}


# ---------------------------------------------------------------------------
# one run

class Run:
    def __init__(self, case, mon):
        self.case = case
        self.mon = mon
        self.err = None
        self.done = threading.Event()
        self.phase = "init"
        self.result = {}
        self.loop = None
        self.real = None
        self.pairs = []
        self.keys = []          # what names pair i's fd in add_*/remove_*: int | socket | file object
        self.after_close = None
        self.rescue = False


def _peek_readable(sock):
    try:
        sock.recv(1, socket.MSG_PEEK)
        return True          # data or EOF pending
    except (BlockingIOError, InterruptedError):
        return False
    except OSError:
        return None


def scenario(run):
    """Runs on its own thread, which is the event-loop thread of this run."""
    case, mon = run.case, run.mon
    n = case["n"]
    real = asyncio.new_event_loop()
    run.real = real
    loop = AddThreadSelectorEventLoop(real)
    run.loop = loop
    st = loop._selector
    pairs = []
    for _ in range(n):
        a, b = socket.socketpair()
        a.setblocking(False)
        pairs.append([a, b])
        if case["key"] == "int":
            run.keys.append(a.fileno())
        elif case["key"] == "sock":
            run.keys.append(a)
        elif case["key"] == "file":
            run.keys.append(os.fdopen(os.dup(a.fileno()), "r+b", 0))
        elif case["key"] == "bfile":
            run.keys.append(os.fdopen(os.dup(a.fileno()), "rb"))
        else:
            raise ValueError(case["key"])
    run.pairs = pairs
    S = {"reg_r": set(), "reg_w": set(), "dead": set(), "sent": [0] * n, "got": [0] * n, "buf": [b""] * n,
         "eof_sent": set(), "eof_seen": set(), "w_pending": set(), "w_disp": 0, "bad_thread": [], "order_bad": [],
         "barriers": 0, "changes_after_barrier": 0, "unsynced": False}
    run.S = S
    lident = threading.get_ident()
    wq = queue.Queue()

    def key(i):
        return run.keys[i]

    progress = None

    def on_read(i):
        mon.ev("reader_cb")
        if threading.get_ident() != lident:
            S["bad_thread"].append(("reader", i))
        try:
            data = pairs[i][0].recv(65536)
        except (BlockingIOError, InterruptedError):
            return
        if data == b"":
            S["eof_seen"].add(i)
            loop.remove_reader(key(i))
            S["reg_r"].discard(i)
        else:
            buf = S["buf"][i] + data
            while len(buf) >= 4:
                (tok,) = struct.unpack(">I", buf[:4])
                if tok != S["got"][i]:
                    S["order_bad"].append((i, tok, S["got"][i]))
                S["got"][i] += 1
                buf = buf[4:]
            S["buf"][i] = buf
        if progress is not None:
            progress.set()

    def on_write(i):
        mon.ev("writer_cb")
        if threading.get_ident() != lident:
            S["bad_thread"].append(("writer", i))
        S["w_disp"] += 1
        S["w_pending"].discard(i)
        loop.remove_writer(key(i))
        S["reg_w"].discard(i)
        if progress is not None:
            progress.set()

    def writer_thread():
        while True:
            cmd = wq.get()
            if cmd is None:
                return
            if cmd[0] == "burst":
                _, i, first, k = cmd
                try:
                    for t in range(first, first + k):
                        pairs[i][1].sendall(struct.pack(">I", t))
                except OSError:
                    pass
            elif cmd[0] == "sync":
                try:
                    real.call_soon_threadsafe(cmd[1].set_result, None)     # harness channel
                except RuntimeError:
                    pass

    wt = threading.Thread(target=writer_thread, name="vf-writer", daemon=True)
    wt.start()

    async def writer_sync(force=False):
        # bursts are sent by the writer thread in FIFO order; wait only if one may still be in flight
        if force or S["unsynced"]:
            f = real.create_future()
            wq.put(("sync", f))
            await f
            S["unsynced"] = False

    def satisfied():
        for i in S["reg_r"]:
            if S["got"][i] < S["sent"][i]:
                return False
            if i in S["eof_sent"] and i not in S["eof_seen"]:
                return False
        return not S["w_pending"]

    async def barrier():
        nonlocal progress
        run.phase = "barrier-writer-sync"
        await writer_sync()
        run.phase = "barrier-wait-dispatch"
        progress = asyncio.Event()
        while not satisfied():
            progress.clear()
            await progress.wait()
        S["barriers"] += 1
        run.phase = "script"

    async def script(final_barrier):
        run.phase = "script"
        for op in case["ops"]:
            k = op[0]
            i = op[1] if len(op) > 1 and k not in ("yield",) else None
            if i is not None and i in S["dead"]:
                continue
            if k == "add_r":
                loop.add_reader(key(i), on_read, i)
                S["reg_r"].add(i)
                S["changes_after_barrier"] += 1 if S["barriers"] else 0
            elif k == "rm_r":
                was = i in S["reg_r"]
                got = loop.remove_reader(key(i))
                S["reg_r"].discard(i)
                S["changes_after_barrier"] += 1 if S["barriers"] else 0
                if bool(got) != was:
                    S.setdefault("rm_bool", []).append(("reader", i, got, was))
            elif k == "add_w":
                loop.add_writer(key(i), on_write, i)
                S["reg_w"].add(i)
                S["w_pending"].add(i)
            elif k == "rm_w":
                was = i in S["reg_w"]
                got = loop.remove_writer(key(i))
                S["reg_w"].discard(i)
                S["w_pending"].discard(i)
                if bool(got) != was:
                    S.setdefault("rm_bool", []).append(("writer", i, got, was))
            elif k == "burst":
                if i in S["eof_sent"]:
                    continue
                wq.put(("burst", i, S["sent"][i], op[2]))
                S["sent"][i] += op[2]
                S["unsynced"] = True
            elif k == "send":
                if i in S["eof_sent"]:
                    continue
                # the loop thread writes itself, but never ahead of a burst still queued for this pair
                await writer_sync()
                for t in range(S["sent"][i], S["sent"][i] + op[2]):
                    pairs[i][1].sendall(struct.pack(">I", t))
                S["sent"][i] += op[2]
            elif k == "yield":
                for _ in range(op[1]):
                    await asyncio.sleep(0)
            elif k == "barrier":
                await barrier()
            elif k == "rm_close":
                # drain the writer first so it never writes to a closed peer mid-burst
                await writer_sync()
                loop.remove_reader(key(i))
                loop.remove_writer(key(i))
                S["reg_r"].discard(i)
                S["reg_w"].discard(i)
                S["w_pending"].discard(i)
                if case["key"] in FILE_KEYS:
                    run.keys[i].close()         # from here on its fileno() raises ValueError
                    S["files_closed"] = S.get("files_closed", 0) + 1
                pairs[i][0].close()
                S["dead"].add(i)
            elif k == "peer_close":
                await writer_sync()
                if i not in S["eof_sent"]:
                    pairs[i][1].shutdown(socket.SHUT_WR)
                    S["eof_sent"].add(i)
        if final_barrier:
            await barrier()
        run.phase = "script-done"

    try:
        mode = case["close"]
        if mode == "never_started":
            # registrations before the loop ever ran, then close
            for op in case["ops"]:
                if op[0] == "add_r":
                    loop.add_reader(key(op[1]), on_read, op[1])
                elif op[0] == "add_w":
                    loop.add_writer(key(op[1]), on_write, op[1])
        else:
            real.run_until_complete(script(final_barrier=(mode != "queued")))
        run.phase = "closing"
        if mode == "asyncgens":
            real.run_until_complete(real.shutdown_asyncgens())
            run.phase = "closing-2"
            loop.close()
        elif mode == "twice":
            loop.close()
            run.phase = "closing-2"
            loop.close()
        elif mode == "atexit":
            with mon.lock:
                mon.atexit_active += 1
            try:
                tpa._atexit_callback()
            finally:
                with mon.lock:
                    mon.atexit_active -= 1
            run.phase = "closing-2"
            loop.close()
        else:
            loop.close()
        run.phase = "closed"
        t = st._thread
        run.after_close = {"thread_alive": bool(t is not None and t.is_alive()), "closed_flag": bool(st._closed),
                           "in_registry": st in tpa._selector_loops, "thread_started": t is not None}
    except BaseException as e:      # noqa: BLE001 - reported as a violation by the caller
        import traceback
        run.err = (type(e).__name__, repr(e)[:300], traceback.format_exc()[-1500:])
        if run.rescue:
            try:
                loop.close()
            except BaseException:   # noqa: BLE001
                pass
    finally:
        wq.put(None)
        run.done.set()


def analyse_stuck(run):
    """See _analyse_stuck; a SelectorThread that is still inside __init__ is simply not analysable yet."""
    try:
        return _analyse_stuck(run)
    except (AttributeError, RuntimeError):      # half-built object / container resized while being copied
        return None


def _analyse_stuck(run):
    """Structural analysis of a scenario that is not making progress. Returns (mechanism, what, witness) or None.
    Every condition describes a state that no future event can change."""
    mon = run.mon
    st = mon.st
    if st is None or run.real is None:
        return None
    snap = mon.snapshot()
    Ls = shake.thread_stack(mon.loop_ident)
    sel = st._thread
    Ss = shake.thread_stack(sel.ident) if sel is not None and sel.ident is not None else None
    sel_alive = sel is not None and sel.is_alive()
    try:
        waker_pending = _peek_readable(st._waker_r)
    except Exception:
        waker_pending = None
    cond = st._select_cond
    waiters = len(getattr(cond, "_waiters", ()))
    base = {"loop_thread": shake.brief(Ls), "selector_thread": shake.brief(Ss), "monitor_state": snap["state"],
            "waker_has_byte": waker_pending, "cond_waiters": waiters, "closing": st._closing_selector,
            "select_args_set": st._select_args is not None, "phase": run.phase}
    sel_in_select = sel_alive and snap["state"] == 2 and snap["in_select"] == 1 and Ss and Ss[-1][1] == "select"
    sel_in_wait = sel_alive and shake.parked_in_cond_wait(Ss) and waiters > 0
    # --- A. close()/_atexit_callback not returning
    if (snap["close_active"] or snap["atexit_active"]) and shake.parked_in_join(Ls):
        if sel_in_select and waker_pending is False:
            return ("close/hangs-in-join-selector-parked-in-select-waker-empty",
                    "close() is blocked in Thread.join while the selector thread is parked in select() and the waker is empty",
                    base)
        if sel_in_wait:
            return ("close/hangs-in-join-selector-parked-in-condition-wait",
                    "close() is blocked in Thread.join while the selector thread waits on the condition un-notified with "
                    "_closing_selector set", base)
        return None
    # --- B. scenario waiting for a dispatch that can never come
    loop_idle = (shake.parked_in_selector(Ls) and shake.stack_has(Ls, "base_events.py", "_run_once")
                 and shake.frame_local(mon.loop_ident, "_run_once", "timeout", "?") is None
                 and not run.real._ready)
    if not loop_idle or snap["handle_active"]:
        return None
    died = sel is not None and sel.ident is not None and not sel_alive and not st._closing_selector
    if snap["pending_handles"] and not died:
        return None
    S = getattr(run, "S", None)
    if S is None:
        return None
    owed = []
    for i in sorted(S["reg_r"]):
        if i in S["dead"]:
            continue
        a = run.pairs[i][0]
        k = run.keys[i]
        if k in st._readers and _peek_readable(a):
            owed.append(("r", i, k))
    for i in sorted(S["w_pending"]):
        k = run.keys[i]
        if k in st._writers:
            owed.append(("w", i, k))
    if not owed:
        return None
    base["owed"] = [(t, i) for t, i, _ in owed]
    if died:
        base["thread_errors"] = THREAD_ERRORS[-2:]
        mech = ("selector-thread/raised-%s" % THREAD_ERRORS[0][1]) if THREAD_ERRORS else \
            "stuck/selector-thread-exited-with-registered-ready-fd"
        return (mech, "the selector thread has exited (not by close) while a registered fd is ready: its readiness will "
                      "never be dispatched", base)
    if sel_in_select and waker_pending is False:
        args = snap["args"] or ([], [])
        missing = [(t, i) for t, i, k in owed if k not in (args[0] if t == "r" else args[1])]
        if missing:
            base["missing_from_select_set"] = missing
            return ("stuck/registered-ready-fd-missing-from-select-set",
                    "selector thread is parked in select() on an fd set that lacks a registered, ready fd; waker empty, "
                    "no _handle_select queued, loop idle: no future event repairs this", base)
        return None
    if sel_in_wait:
        if st._select_args is not None:
            return ("stuck/selector-waits-unnotified-although-select-args-are-set",
                    "_select_args has been handed over but the selector thread still waits on the condition and is not in its "
                    "notify list: nobody will wake it", base)
        return ("stuck/no-select-armed-and-nothing-queued",
                "selector thread waits for new select arguments, no _handle_select is queued or running and the loop is idle "
                "while a registered fd is ready", base)
    return None


def _close_all(run):
    for k in run.keys:
        if hasattr(k, "close"):
            try:
                k.close()
            except (OSError, ValueError):
                pass
    for a, b in run.pairs:
        for s in (a, b):
            try:
                s.close()
            except OSError:
                pass


def run_case(case, ctx):
    global MON
    if ABORT:
        ctx.count("skipped_after_stuck_run")
        return
    install_hooks()
    mon = Monitor()
    run = Run(case, mon)
    del THREAD_ERRORS[:]
    sh = shake.Shaker(_CODES, case["sseed"], p_yield=case["p_yield"], p_sleep=case["p_sleep"])
    th = threading.Thread(target=scenario, args=(run,), name="vf-loop", daemon=True)
    stuck = None
    inconclusive = None
    with LogMon() as lm:
        MON = mon
        sh.install()
        try:
            th.start()
            t_end = time.monotonic() + WATCHDOG
            same, last = 0, None
            while not run.done.wait(0.05):
                a = analyse_stuck(run)
                sig = (mon.snapshot()["nev"], a[0] if a else None)
                if a is not None and sig == last:
                    same += 1
                    if same >= 3:
                        stuck = a
                        break
                else:
                    same = 0
                last = sig
                if time.monotonic() > t_end:
                    inconclusive = {"phase": run.phase, "loop": shake.brief(shake.thread_stack(mon.loop_ident or 0)),
                                    "state": mon.snapshot()["state"], "analysis": a[0] if a else None}
                    break
        finally:
            sh.uninstall()
            MON = None if stuck is None and inconclusive is None else MON
    ctx.count("runs")
    ctx.count("runs_key_" + case["key"])
    ctx.count("shake_lines", sh.lines)
    ctx.count("shake_injections", sh.sleeps + sh.yields)
    with mon.lock:
        events = list(mon.events)
        viol = list(mon.viol)
        nsel, handles = mon.nsel, mon.handles
    ctx.count("trace_events", len(events))
    ctx.count("select_calls", nsel)
    ctx.count("handle_selects", handles)
    ctx.count("oracle_evals", len(events))        # the online spec is evaluated at every recorded event
    ctx.seen("interleavings", events)
    for mech, what, wit in viol[:5]:
        ctx.violation(mech, what, dict(wit, case_close=case["close"]))
    if THREAD_ERRORS and not (stuck is not None and stuck[0].startswith("selector-thread/")):
        ctx.violation(f"selector-thread/raised-{THREAD_ERRORS[0][1]}",
                      "an exception escaped the selector thread (it has stopped serving the loop)",
                      {"errors": THREAD_ERRORS[:3], "key": case["key"], "close": case["close"]})
    if stuck is not None:
        ctx.violation(stuck[0], stuck[1], stuck[2])
        # harness-level rescue so the remaining cases of the shard can still run: ask the selector thread to
        # leave, wake everything, stop the loop.  If the threads cannot be freed the process is polluted.
        run.rescue = True
        st = mon.st
        try:
            with st._select_cond:
                st._closing_selector = True
                st._select_cond.notify_all()
            st._waker_w.send(b"a")
        except Exception:
            pass
        try:
            run.real.call_soon_threadsafe(run.real.stop)
        except Exception:
            pass
        freed = run.done.wait(3)
        MON = None
        tpa._selector_loops.discard(st)
        if not freed:
            ABORT.append(stuck[0])
            tpa._selector_loops.clear()           # keep tornado's atexit hook from joining the stuck thread
        else:
            ctx.count("stuck_runs_rescued")
            _close_all(run)
        return
    if inconclusive is not None:
        ABORT.append("inconclusive")
        MON = None
        tpa._selector_loops.clear()
        ctx.count("inconclusive_watchdog")
        raise RuntimeError("INCONCLUSIVE: watchdog expired without a structural witness: " + repr(inconclusive))
    th.join(5)
    S = getattr(run, "S", {})
    if run.err is not None:
        ctx.violation(f"scenario/raised-{run.err[0]}", "an add/remove/close call or the loop raised during the scenario",
                      {"err": run.err[1], "tb": run.err[2], "phase": run.phase})
    else:
        ac = run.after_close
        ctx.count("closes_checked")
        ctx.check(not ac["thread_alive"], "close/selector-thread-alive-after-close",
                  "close() returned but the selector thread is still alive", dict(ac, mode=case["close"]))
        ctx.check(ac["closed_flag"] and not ac["in_registry"], "close/not-marked-closed",
                  "after close() the SelectorThread is not marked closed / still registered for atexit", dict(ac, mode=case["close"]))
        if case["close"] == "never_started":
            ctx.count("closed_before_thread_started")
    bad = [r for r in lm.uncaught()]
    if bad:
        ctx.violation("log/uncaught-%s" % (bad[0]["exc"] or "error"), "an uncaught error was logged during the scenario",
                      {"records": bad[:3]})
    ctx.count("oracle_evals")
    if S:
        ctx.count("tokens_consumed", sum(S["got"]))
        ctx.count("barriers", S["barriers"])
        ctx.count("writer_dispatches", S["w_disp"])
        ctx.count("eof_dispatches", len(S["eof_seen"]))
        ctx.count("file_object_keys_closed_after_remove", S.get("files_closed", 0))
        ctx.check(not S["bad_thread"], "affinity/callback-off-the-loop-thread",
                  "a reader/writer callback ran on a thread other than the event-loop thread", {"which": S["bad_thread"][:3]})
        ctx.check(not S["order_bad"], "tokens/out-of-order-or-duplicated", "tokens were delivered out of order",
                  {"first": S["order_bad"][:3]})
        ctx.check(not S.get("rm_bool"), "remove/return-value-wrong",
                  "remove_reader/remove_writer returned a value that does not reflect whether the fd was registered",
                  {"first": S.get("rm_bool", [])[:3]})
    _close_all(run)
    ntok = sum(S["sent"]) if S else 0
    nontriv = bool(S) and ntok >= 1 and (S["changes_after_barrier"] >= 1 or case["n"] >= 2)
    ctx.mark((case["n"], case["key"], tuple(case["ops"]), case["close"], case["p_yield"], case["p_sleep"], case["sseed"]),
             nontriv)
    if nontriv:
        ctx.sample({"n": case["n"], "key": case["key"], "close": case["close"], "ops": case["ops"][:10]}, limit=2)


def finish_shard(spec, ctx):
    if ABORT:
        tpa._selector_loops.clear()
