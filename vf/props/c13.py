"""C13 — closing an IOStream settles every pending read/write/connect future exactly once.

Fault enumeration over (script, close cause, close point): every script of
reads/writes/arrivals is run once per (cause, position) with the close cause
inserted at every token boundary.  Causes: close(), close(exc_info=E) in its three
spellings, peer orderly EOF, peer reset, OSError(EIO) injected into read_from_fd
(optionally after k more successful reads, so data is buffered-but-unsearched when
the error hits), EPIPE / EIO injected into write_to_fd.  Connect scripts run
against a listening / bound-not-listening / non-existent unix address.

Oracle: per-future state machine + the C11 cursor model.  The harness knows how
many bytes the stream fetched from its fd (counted at the `read_from_fd` extension
point), hence exactly what was buffered when it closed:  a read pending at close
must return data iff `S[c:fetched]` satisfies it, otherwise fail with
StreamClosedError whose real_error is the cause; writes/connects pending at close
fail the same way; at the moment the close callback runs every future is done; it
runs exactly once; nothing succeeds afterwards except reads served from S[c:fetched].
"""
from __future__ import annotations

import asyncio
import atexit
import errno
import gc
import os
import shutil
import socket
import tempfile

from vf import core, vloop, wire, logmon
from vf.vloop import settle
from vf.refs import iostream_model as M
from vf.props import c11 as G     # stream / request generators

core.use_repo()
from tornado.iostream import StreamClosedError  # noqa: E402

PROP = "C13"
META = {
    "level": "fault_enumeration",
    "technique": "close cause x close point enumeration per script; per-future state machine + cursor model deciding satisfiable-from-buffer",
    "level_text": "For generated operation scripts every token boundary is used as close point for each close cause (local close in 4 spellings, peer EOF, peer reset, injected read error after k reads, injected write errors); after quiescence every read/write/connect future must be settled, reads pending at close must hold data iff the bytes fetched so far satisfy them, failures must be StreamClosedError carrying the cause, the close callback must have run exactly once with all futures done, a second close() must be a no-op, and later writes/connect-time writes must not succeed. Connect scripts are enumerated exhaustively over three unix-address kinds. Every read/write script is also run in a variant where the application cancels read/write futures it holds (fut.cancel() or a timed-out asyncio.wait_for) while they are still registered in the stream, usually with another write pending behind them, and connect scripts may cancel the connect or a write future: the cancelled future is exempt, every other future must still be settled by the close, close() must return normally and the close callback must run exactly once.",
    "level_note": "Close points are token boundaries of the harness script (quiescent points and not-yet-settled arrivals), not arbitrary instructions; ERROR-event closes (get_fd_error) are unreachable with the asyncio-based IOLoop and are not exercised; a read call that raises the injected transport error synchronously is UNSPECIFIED; post-close reads may fail even if buffered data would satisfy them (only success is constrained); after the application cancelled a read the cursor model is no longer applied to later reads (the stream keeps consuming for the cancelled read), and the CancelledError record asyncio logs for write()'s own done-callback when the application cancels a write future is set aside (it is produced by the cancel, not by the close).",
    "design_ref": "DESIGN.md §4 C13",
    "engine": "wire",
}
RULE = ("rw case = (script of <=5 read/write ops with arrival tokens, close cause, close position); every position "
        "0..len(script) x every cause is run for each script; non-trivial = the stream closed through the cause and at "
        "least one future was failed or satisfied by the close; connect case = (address kind, callback?, order of "
        "connect/write/close/settle/read tokens) enumerated exhaustively; distinct by whole case; each rw script also yields a cancellation variant with "
        "('C', read|write, cancel|wait_for) tokens inserted after read/write tokens (and often a further write), "
        "enumerated over the same close points x causes")
FLOORS = {"quick": 1500, "thorough": 60000}
ASSUMPTIONS = [
    "cursor model of the read contracts is correct (shared with C11)",
    "bytes fetched from the fd are counted at the read_from_fd extension point; buffered = fetched - consumed",
    "closing an AF_UNIX peer with unread data in its receive queue produces ECONNRESET on the other end (Linux)",
    "scripts contain no max_bytes reads and no max_buffer_size (C11 covers those closures)",
]
REQUIRED_COUNTERS = ["oracle_evals", "closed_by_cause", "pending_read_failed_at_close", "pending_read_satisfied_at_close",
                     "pending_delimited_or_sized_read_satisfied_at_close",
                     "pending_write_failed_at_close", "post_close_write_refused", "close_callback_checked",
                     "real_error_checked", "second_close_checked", "connect_resolved", "connect_failed_at_close",
                     "connect_failed_refused", "cause:close", "cause:close_exc", "cause:eof", "cause:reset",
                     "cause:eio", "cause:epipe", "cancelled_read", "cancelled_write", "cancelled_connect",
                     "closed_with_cancelled_read_registered", "pending_failed_at_close_with_cancelled_sibling",
                     "close_callback_checked_after_cancel", "local_close_returned"]

CAUSES = [("close",), ("close_exc",), ("close_tuple",), ("close_true",), ("eof",), ("reset",),
          ("eio", 0), ("eio", 2), ("epipe", 0), ("wio", 0)]


class Boom(Exception):
    pass


def EXHAUSTIVE(tier):
    return ("per script: every close position x every close cause (10 variants); connect scripts: every ordered "
            "selection of <=3 tokens from {write small, write big, close, close(exc), settle, read, cancel connect future, "
            "cancel last pending write future} after connect x "
            "3 address kinds x callback set/unset")


# --------------------------------------------------------------------------
# generation

def gen_script(rng):
    L = rng.randint(6, 70)
    S, alpha = G.gen_stream(rng, L)
    chunk = rng.choice([4, 4, 8, 16, 64])
    plan = None
    if rng.random() < 0.6:
        plan = [rng.choice([1, 2, 3, 4, 5, 7, 8, 16, 0]) for _ in range(rng.randint(3, 40))]
    toks = []
    c = 0            # simulated cursor
    sent = 0
    nops = rng.randint(1, 5)
    for i in range(nops):
        r = rng.random()
        if r < 0.28:
            toks.append(("W", rng.choice(["small", "small", "big"])))
            if rng.random() < 0.4:
                toks.append(("P",))
            continue
        rem = len(S) - c
        kind = rng.choice(["bytes", "bytes", "bytesp", "into", "intop", "until", "until", "regex"] +
                          (["close"] if i == nops - 1 else []))
        if kind == "bytes":
            req = ("bytes", max(1, G.pick_n(rng, rem, chunk)), False)
        elif kind == "bytesp":
            req = ("bytes", max(1, G.pick_n(rng, rem, chunk)), True)
        elif kind == "into":
            req = ("into", max(1, G.pick_n(rng, rem, chunk)), False)
        elif kind == "intop":
            req = ("into", max(1, G.pick_n(rng, rem, chunk)), True)
        elif kind == "until":
            req = ("until", G.pick_delim(rng, S, c, alpha), None)
        elif kind == "regex":
            rx = G.pick_regex(rng, S, c, alpha)
            if rx[0] == "greedy":
                rx = ("http",)
            req = ("regex", rx, None)
        else:
            req = ("close",)
        m = M.first_match_end(req, S[c:]) if req[0] in ("until", "regex") else None
        e = M.expect(req, m, rem, True)
        need = e[1] if e[0] == "data" else (e[2] if e[0] == "partial" else rem)
        if req[0] == "close":
            need = rem
        target = min(len(S), c + need + rng.choice([0, 0, 0, 1, 3, 9]))   # sometimes over-deliver
        todo = max(0, target - sent)
        mode = rng.choice(["before", "after", "split", "split_nosettle", "none"])
        if mode == "after":
            if todo:
                toks.append(("A", todo, True))
            toks.append(("R", req))
        elif mode == "before":
            toks.append(("R", req))
            if todo:
                toks.append(("A", todo, True))
        elif mode in ("split", "split_nosettle"):
            toks.append(("R", req))
            if todo >= 2:
                p = rng.randint(1, todo - 1)
                toks.append(("A", p, mode == "split"))
                toks.append(("A", todo - p, rng.random() < 0.5))
            elif todo:
                toks.append(("A", todo, rng.random() < 0.5))
        else:
            toks.append(("R", req))
            todo = 0
        sent += todo
        if e[0] in ("data", "partial"):
            c += need if e[0] == "data" else min(need, max(1, sent - c))
        if rng.random() < 0.15:
            toks.append(("S",))
    return {"S": S, "toks": toks, "chunk": chunk, "plan": plan,
            "cb": rng.choice(["early", "early", "none", "late"]), "small_sndbuf": rng.random() < 0.8}


def add_cancels(sc, rng):
    """Variant of a script in which the application cancels futures it still holds: after a read / write token
    (optionally after a settle, as a timed-out wait_for would) a ("C", which, how) token cancels the most recent
    pending read / write future; often another write is issued afterwards so that something else is pending."""
    toks = []
    n = 0
    for t in sc["toks"]:
        toks.append(t)
        if t[0] in ("R", "W") and rng.random() < (0.55 if t[0] == "R" else 0.4):
            if rng.random() < 0.4:
                toks.append(("S",))
            toks.append(("C", "read" if t[0] == "R" else "write", rng.choice(["cancel", "cancel", "wait_for"])))
            n += 1
            r = rng.random()
            if r < 0.45:
                toks.append(("W", rng.choice(["big", "big", "small"])))
                if rng.random() < 0.3:
                    toks.append(("S",))
            elif r < 0.55:
                toks.append(("C", rng.choice(["read", "write"]), "cancel"))
    if not n:
        cand = [i for i, t in enumerate(toks) if t[0] in ("R", "W")]
        if cand:
            i = rng.choice(cand)
            toks[i + 1:i + 1] = [("C", "read" if toks[i][0] == "R" else "write", "cancel"), ("W", "big")]
        else:
            toks += [("R", ("bytes", len(sc["S"]) + 3, False)), ("C", "read", "wait_for"), ("W", "big")]
    out = dict(sc)
    out["toks"] = toks
    out["cb"] = rng.choice(["early", "early", "late", sc["cb"]])
    return out


def conn_scripts():
    import itertools
    pool = [("W", "small"), ("W", "big"), ("X", ("close",)), ("X", ("close_exc",)), ("S",), ("R", ("bytes", 1, True)),
            ("C", "connect", "cancel"), ("C", "write", "cancel")]
    for target in ("listen", "refuse", "missing"):
        for cb in (True, False):
            for n in range(0, 4):
                for sel in itertools.permutations(pool, n):
                    yield {"kind": "conn", "target": target, "cb": cb, "toks": list(sel)}


def shards(tier, seed):
    out = []
    nscripts = 5 if tier == "quick" else 48
    nshards = 14 if tier == "quick" else 48
    for j in range(nshards):
        out.append({"kind": "rw", "scripts": nscripts, "j": j})
    for t in ("listen", "refuse", "missing"):
        out.append({"kind": "conn", "target": t})
    return out


def gen_cases(spec):
    if spec["kind"] == "conn":
        for c in conn_scripts():
            if c["target"] == spec["target"]:
                yield c
        return
    rng = core.rng_for(spec["seed"], PROP, f"rw{spec['j']}")
    rng2 = core.rng_for(spec["seed"], PROP, f"cx{spec['j']}")
    for _ in range(spec["scripts"]):
        base = gen_script(rng)
        for sc in (base, add_cancels(base, rng2)):
            n = len(sc["toks"])
            for k in range(n + 1):
                for cause in CAUSES:
                    case = dict(sc)
                    case.update({"kind": "rw", "k": k, "cause": cause})
                    yield case


def directed_cases():
    # delimiter buffered but not yet searched (no doubling) when the read error hits: close() must serve the read
    yield {"kind": "rw", "S": b"aaaaaaaaaaaa\r\nzz", "toks": [("R", ("until", b"\r\n", None)), ("A", 16, False)],
           "chunk": 4, "plan": None, "cb": "early", "small_sndbuf": True, "k": 2, "cause": ("eio", 4)}
    # read_into pending with part of its buffer filled when the stream is closed; later reads (C11 fix witness)
    yield {"kind": "rw", "S": b"abcdef", "toks": [("R", ("into", 10, False)), ("A", 3, True)],
           "chunk": 16, "plan": None, "cb": "early", "small_sndbuf": True, "k": 2, "cause": ("close",)}
    # writes queued behind a blocked big write, closed by an injected EPIPE
    yield {"kind": "rw", "S": b"abcdef", "toks": [("W", "big"), ("W", "small"), ("S",), ("P",)],
           "chunk": 16, "plan": None, "cb": "late", "small_sndbuf": True, "k": 3, "cause": ("epipe", 0)}
    # a read whose wait_for timed out (future cancelled, still registered), a blocked write behind it, then the close
    for cause in (("close",), ("close_exc",), ("eof",), ("reset",), ("epipe", 0)):
        yield {"kind": "rw", "S": b"abcdef", "toks": [("R", ("bytes", 10, False)), ("C", "read", "wait_for"), ("W", "big"), ("S",)],
               "chunk": 16, "plan": None, "cb": "early", "small_sndbuf": True, "k": 4, "cause": cause}
    # a cancelled write future with a second write queued behind it
    yield {"kind": "rw", "S": b"abcdef", "toks": [("W", "big"), ("C", "write", "cancel"), ("W", "small"), ("S",)],
           "chunk": 16, "plan": None, "cb": "late", "small_sndbuf": True, "k": 4, "cause": ("close",)}


# --------------------------------------------------------------------------
# instrumented stream

class CStream(wire.ScriptedIOStream):
    def __init__(self, *a, **kw):
        self.fd_bytes = 0
        self.rfault = None       # [countdown, exc]
        self.wfault = None
        self.fault_fired = None
        self.last_read_future = None
        self.satisfied_by_close = []
        super().__init__(*a, **kw)

    def read_from_fd(self, buf):
        if self.rfault is not None:
            if self.rfault[0] <= 0:
                e = self.rfault[1]
                self.rfault = None
                self.fault_fired = "r"
                del buf
                raise e
            self.rfault[0] -= 1
        n = super().read_from_fd(buf)
        if n:
            self.fd_bytes += n
        return n

    def write_to_fd(self, data):
        if self.wfault is not None:
            if self.wfault[0] <= 0:
                e = self.wfault[1]
                self.wfault = None
                self.fault_fired = "w"
                del data
                raise e
            self.wfault[0] -= 1
        return super().write_to_fd(data)

    def _start_read(self):
        f = super()._start_read()
        self.last_read_future = f
        return f

    def close(self, exc_info=False):
        # observe which pending read the close itself completes with data (order of events only)
        f = self.last_read_future
        watch = f is not None and not f.done() and not self.closed()
        super().close(exc_info)
        if watch and f.done() and not f.cancelled() and f.exception() is None:
            self.satisfied_by_close.append(f)


_TMP = None
_SEQ = 0


def _tmpdir():
    global _TMP
    if _TMP is None:
        _TMP = tempfile.mkdtemp(prefix="vf-c13-")
        atexit.register(shutil.rmtree, _TMP, True)
    return _TMP


def finish_shard(spec, ctx):
    global _TMP
    if _TMP is not None:
        shutil.rmtree(_TMP, ignore_errors=True)
        _TMP = None


# --------------------------------------------------------------------------
# oracle state

class Run:
    def __init__(self, case, ctx, lm):
        self.case, self.ctx, self.lm = case, ctx, lm
        self.S = case.get("S", b"")
        self.c = 0
        self.sent = 0
        self.reads = []
        self.writes = []
        self.W = 0                 # bytes accepted by write()
        self.cb_count = 0
        self.cb_undone = None
        self.cb_set_before_close = False
        self.E = Boom("injected close reason")
        self.fault_exc = None
        self.cause = None
        self.cause_applied = False
        self.ok = True
        self.aligned = True        # cursor model still aligned with the stream
        self.failed_read_before = False
        self.events = 0            # futures failed/satisfied by the close
        self.connect = None
        self.st = None
        self.cancels = 0           # futures the application cancelled while still pending
        self.ghost_read = False    # a cancelled read is still registered in the stream

    def bad(self, mech, what, extra=None):
        self.ok = False
        if self.failed_read_before and mech.startswith("read/"):
            mech = "after-failed-read/" + mech.split("/", 1)[1]
        st = self.st
        w = {"cause": self.cause, "cursor": self.c, "fetched": getattr(st, "fd_bytes", None), "sent": self.sent,
             "closed": st.closed() if st is not None else None, "error": repr(getattr(st, "error", None))}
        if extra:
            w.update(extra)
        self.ctx.violation(mech, what, w)

    # ---- cause expectation -------------------------------------------
    def error_ok(self, err):
        cz = self.cause[0]
        if cz in ("close", "eof"):
            return err is None
        if cz in ("close_exc", "close_tuple", "close_true"):
            return err is self.E
        if cz == "reset":
            return isinstance(err, OSError) and err.errno in (errno.ECONNRESET, errno.EPIPE)
        if cz in ("eio", "epipe", "wio"):
            return err is self.fault_exc
        if cz in ("refuse", "missing"):
            return isinstance(err, OSError) and err.errno == (errno.ECONNREFUSED if cz == "refuse" else errno.ENOENT)
        return False

    def check_closed_error(self, e, what, detail):
        """e must be StreamClosedError carrying the cause."""
        self.ctx.count("oracle_evals")
        if not isinstance(e, StreamClosedError):
            self.bad(f"{what}/failed-with-{type(e).__name__}", f"{what} failed with something other than StreamClosedError",
                     dict(detail, error=repr(e)))
            return
        self.ctx.count("real_error_checked")
        if not self.error_ok(e.real_error):
            self.bad(f"{what}/real-error-mismatch", "StreamClosedError.real_error is not the error that closed the stream",
                     dict(detail, real_error=repr(e.real_error)))

    # ---- application-side cancellation ---------------------------------
    def pick_cancel(self, which):
        """-> (kind, entry) of the most recent future of that kind that is still pending, or None."""
        if which == "connect":
            cf = self.connect
            if cf is not None and cf["fut"] is not None and not cf["fut"].done():
                return ("connect", cf)
            return None
        pool = self.reads if which == "read" else self.writes
        for ent in reversed(pool):
            if ent["state"] == "pending" and ent["fut"] is not None and not ent["fut"].done():
                return (which, ent)
        return None

    def mark_cancelled(self, st, kind, ent):
        if not ent["fut"].cancelled():
            self.ctx.count("cancel_lost_race_future_completed_first")
            return
        self.cancels += 1
        self.ctx.count("cancelled_" + kind)
        if kind == "connect":
            ent["cancelled"] = True
            return
        ent["state"] = "cancelled"
        if kind == "read":
            # the stream keeps the cancelled read registered: it goes on consuming bytes for it (or drops it at
            # close), so the cursor model no longer knows where the next read starts
            self.aligned = False
            self.ghost_read = not st.closed() and st.reading()

    async def cancel(self, st, which, how):
        tgt = self.pick_cancel(which)
        if tgt is None:
            self.ctx.count("cancel_noop_nothing_pending")
            return
        kind, ent = tgt
        if how == "wait_for":
            try:
                await asyncio.wait_for(ent["fut"], 0.05)
            except (asyncio.TimeoutError, asyncio.CancelledError):
                pass
            except Exception:
                pass
        else:
            ent["fut"].cancel()
        self.mark_cancelled(st, kind, ent)

    def uncaught_logs(self):
        """Uncaught-exception log records, minus the one artefact of the application's own cancel: write() attaches
        `lambda f: f.exception()` to its future, which logs CancelledError when the *application* cancels that
        future -- at cancel time, whether or not the stream ever closes, so it is not an outcome of the close
        (UNSPECIFIED here; at most one such record per cancelled write is set aside)."""
        out, spare = [], sum(1 for w in self.writes if w["state"] == "cancelled")
        for r in self.lm.uncaught():
            if spare and r.get("exc") == "CancelledError" and "BaseIOStream.write.<locals>.<lambda>" in r["msg"] \
                    and "<Future cancelled>" in r["msg"]:
                spare -= 1
                self.ctx.count("unspecified_cancelled_write_future_logs_cancellederror")
                continue
            out.append(r)
        return out

    def track_ghost(self, st):
        if self.ghost_read and not st.closed() and not st.reading():
            self.ghost_read = False          # arriving data completed the cancelled read
            self.ctx.count("cancelled_read_released_by_data")

    def local_close(self, st, *a, **kw):
        """close() as the application calls it: it must return normally whatever is pending."""
        self.ctx.count("oracle_evals")
        try:
            st.close(*a, **kw)
        except Exception as e:
            self.bad(f"close/raises-{type(e).__name__}", "close() raised instead of closing the stream and settling its futures",
                     {"error": repr(e), "cancelled_futures": self.cancels})
            return
        self.ctx.count("local_close_returned")

    # ---- reads -------------------------------------------------------
    def issue_read(self, st, req):
        if any(r["state"] == "pending" for r in self.reads) and not st.closed():
            self.ctx.count("reads_skipped_already_reading")
            return
        self.track_ghost(st)
        if self.ghost_read and not st.closed():
            self.ctx.count("reads_skipped_cancelled_read_still_registered")
            return
        m = M.first_match_end(req, self.S[self.c:]) if req[0] in ("until", "regex") else None
        ent = {"req": req, "fut": None, "buf": None, "m": m, "raised": None, "state": "pending",
               "closed_at_issue": st.closed(), "i": len(self.reads)}
        try:
            k = req[0]
            if k == "bytes":
                ent["fut"] = st.read_bytes(req[1], partial=req[2])
            elif k == "into":
                ent["buf"] = bytearray(req[1])
                ent["fut"] = st.read_into(ent["buf"], partial=req[2])
            elif k == "until":
                ent["fut"] = st.read_until(req[1])
            elif k == "regex":
                ent["fut"] = st.read_until_regex(M.regex_source(req[1]))
            else:
                ent["fut"] = st.read_until_close()
        except Exception as e:
            ent["raised"] = e
            ent["hidden"] = st.last_read_future
        self.ctx.count("kind:" + M.kind_of(req))
        self.reads.append(ent)
        self.poll_reads(st)

    def poll_reads(self, st, final=False):
        for ent in self.reads:
            if ent["state"] != "pending":
                continue
            if ent["raised"] is None and not ent["fut"].done():
                if final and st.closed():
                    self.ctx.count("oracle_evals")
                    ent["state"] = "stuck"
                    self.bad("read/pending-after-close", "read future still pending at quiescence after the stream closed",
                             {"req": ent["req"]})
                continue
            self.judge_read(st, ent)

    def judge_read(self, st, ent):
        req = ent["req"]
        kind = M.kind_of(req)
        self.ctx.count("oracle_evals")
        closed = st.closed()
        avail = st.fd_bytes - self.c
        exp = M.expect(req, ent["m"], avail, closed)
        det = {"req": req, "expected": exp, "closed_at_issue": ent["closed_at_issue"]}
        if ent["raised"] is not None or ent["fut"].exception() is not None:
            ent["state"] = "failed"
            sync = ent["raised"] is not None
            e = ent["raised"] if sync else ent["fut"].exception()
            if sync and e is self.fault_exc and self.fault_exc is not None:
                # the read call itself re-raised the injected transport error: not a future outcome (UNSPECIFIED)
                self.ctx.count("unspecified_read_call_raised_injected_error")
                h = ent.get("hidden")
                if h is not None and h.done() and not h.cancelled() and h.exception() is None:
                    self.ctx.count("unspecified_inline_error_dropped_completed_read")
                    self.aligned = False
                self.failed_read_before = True
                return
            if not closed:
                self.bad("read/failed-on-open-stream", "read failed although the stream is not closed", dict(det, error=repr(e)))
                return
            self.check_closed_error(e, "read", det)
            if not ent["closed_at_issue"]:
                self.events += 1
                self.ctx.count("pending_read_failed_at_close")
                if self.cancels:
                    self.ctx.count("pending_failed_at_close_with_cancelled_sibling")
                if self.aligned and exp[0] in ("data", "partial"):
                    self.bad(f"read/{kind}-failed-although-buffer-satisfies",
                             "read pending at close failed although the bytes already fetched satisfy it", det)
            else:
                self.ctx.count("post_close_read_failed")
            self.failed_read_before = True
            return
        # data
        ent["state"] = "data"
        val = ent["fut"].result()
        if req[0] == "into":
            if not isinstance(val, int) or isinstance(val, bool) or not (0 <= val <= len(ent["buf"])):
                self.bad("read/result-type", "read_into did not return a count within the buffer", dict(det, got=repr(val)[:60]))
                self.aligned = False
                return
            data = bytes(ent["buf"][:val])
        else:
            if not isinstance(val, bytes):
                self.bad("read/result-type", "read returned something other than bytes", dict(det, got=repr(val)[:60]))
                self.aligned = False
                return
            data = val
        if not self.aligned:
            self.ctx.count("unspecified_unaligned_reads")
            return
        probs = M.conformance(req, data, self.S, self.c, ent["m"], st.fd_bytes)
        for suffix, text in probs:
            if suffix == "beyond-available" and ent["closed_at_issue"]:
                suffix, text = "post-close-read-beyond-buffer", "read on a closed stream returned bytes that were not buffered at close"
            self.bad(f"read/{kind}-{suffix}", text, dict(det, got=data[:60], want=self.S[self.c:self.c + len(data)][:60]))
        if probs:
            self.aligned = False
            return
        if exp[0] == "data" and len(data) != exp[1] or exp[0] == "partial" and not (exp[1] <= len(data) <= exp[2]) \
                or exp[0] in ("pending", "fail"):
            self.bad(f"read/{kind}-length-vs-model", "read returned a length its contract does not determine",
                     dict(det, got_len=len(data)))
        if closed and not ent["closed_at_issue"] and ent["fut"].done():
            # could have been completed by the close itself or just before; counted when the close satisfied it
            pass
        if ent["closed_at_issue"]:
            self.ctx.count("post_close_read_served_from_buffer")
        elif any(f is ent["fut"] for f in st.satisfied_by_close):
            self.events += 1
            self.ctx.count("pending_read_satisfied_at_close")
            if req[0] != "close":
                self.ctx.count("pending_delimited_or_sized_read_satisfied_at_close")
        self.c += len(data)

    # ---- writes ------------------------------------------------------
    def issue_write(self, st, size_tag):
        size = {"small": 5, "big": 30000}[size_tag]
        data = G_pattern(len(self.writes), size)
        ent = {"fut": None, "raised": None, "closed_at_issue": st.closed(), "i": len(self.writes), "size": size,
               "state": "pending", "E": None}
        try:
            ent["fut"] = st.write(data)
            self.W += size
            ent["E"] = self.W
        except Exception as e:
            ent["raised"] = e
        self.writes.append(ent)

    def poll_writes(self, st, final=False):
        for ent in self.writes:
            if ent["state"] != "pending":
                continue
            det = {"write": ent["i"], "size": ent["size"], "closed_at_issue": ent["closed_at_issue"]}
            if ent["raised"] is not None:
                ent["state"] = "failed"
                self.ctx.count("oracle_evals")
                if not ent["closed_at_issue"]:
                    self.bad(f"write/raises-{type(ent['raised']).__name__}-on-open-stream",
                             "write() raised although the stream was not closed", dict(det, error=repr(ent["raised"])))
                else:
                    self.ctx.count("post_close_write_refused")
                    self.check_closed_error(ent["raised"], "write", det)
                continue
            f = ent["fut"]
            if not f.done():
                if final and st.closed():
                    ent["state"] = "stuck"
                    self.ctx.count("oracle_evals")
                    self.bad("write/pending-after-close", "write future still pending at quiescence after the stream closed", det)
                continue
            self.ctx.count("oracle_evals")
            if f.exception() is not None:
                ent["state"] = "failed"
                if not st.closed():
                    self.bad("write/failed-on-open-stream", "write future failed although the stream is open",
                             dict(det, error=repr(f.exception())))
                    continue
                self.check_closed_error(f.exception(), "write", det)
                if ent["closed_at_issue"]:
                    self.ctx.count("post_close_write_refused")
                else:
                    self.events += 1
                    self.ctx.count("pending_write_failed_at_close")
                    if self.cancels:
                        self.ctx.count("pending_failed_at_close_with_cancelled_sibling")
            else:
                ent["state"] = "ok"
                self.ctx.count("writes_succeeded")
                if ent["closed_at_issue"]:
                    self.bad("write/succeeded-after-close", "a write issued after the stream closed succeeded", det)
                elif st.bytes_to_transport < ent["E"]:
                    self.bad("write/succeeded-before-bytes-sent", "write future succeeded although not all its bytes reached the transport",
                             dict(det, end=ent["E"], sent=st.bytes_to_transport))

    # ---- close callback ------------------------------------------------
    def on_close_cb(self):
        self.cb_count += 1
        if self.cb_count == 1:
            undone = [("read", r["i"]) for r in self.reads if r["raised"] is None and not r["fut"].done()]
            undone += [("write", w["i"]) for w in self.writes if w["raised"] is None and not w["fut"].done()]
            if self.connect is not None and self.connect["fut"] is not None and not self.connect["fut"].done():
                undone.append(("connect", 0))
            self.cb_undone = undone
            self.cb_closed = self.st.closed()

    def check_callback(self, st):
        if not st.closed():
            if self.cb_count:
                self.ctx.count("oracle_evals")
                self.bad("close-callback/ran-on-open-stream", "close callback ran although the stream is open", {})
            return
        if not self.cb_set_before_close:
            return
        self.ctx.count("close_callback_checked")
        if self.cancels:
            self.ctx.count("close_callback_checked_after_cancel")
        self.ctx.count("oracle_evals")
        if self.cb_count != 1:
            self.bad("close-callback/count-%s" % ("zero" if self.cb_count == 0 else "many"),
                     "close callback did not run exactly once", {"count": self.cb_count})
        elif self.cb_undone:
            self.bad("close-callback/before-futures-settled", "close callback ran while a pending future was not yet completed",
                     {"undone": self.cb_undone})


def G_pattern(i, size):
    base = bytes((i * 17 + j) % 251 for j in range(251))
    return (base * (size // 251 + 1))[:size]


# --------------------------------------------------------------------------
# cause application

def apply_cause(run, st, peer, a2):
    cause = run.cause
    cz = cause[0]
    run.cause_applied = True
    run.ctx.count("cause:" + {"close_tuple": "close_exc", "close_true": "close_exc", "wio": "epipe"}.get(cz, cz))
    run.track_ghost(st)
    if run.ghost_read and not st.closed():
        run.ctx.count("closed_with_cancelled_read_registered")
    if cz == "close":
        run.local_close(st)
    elif cz == "close_exc":
        run.local_close(st, exc_info=run.E)
    elif cz == "close_tuple":
        run.local_close(st, exc_info=(type(run.E), run.E, None))
    elif cz == "close_true":
        try:
            raise run.E
        except Boom:
            run.local_close(st, exc_info=True)
    elif cz == "eof":
        try:
            peer.sock.shutdown(socket.SHUT_WR)
        except OSError:
            pass
    elif cz == "reset":
        try:
            a2.send(b"unread-by-peer")      # lands in the peer's receive queue; closing with it unread resets
        except OSError:
            pass
        peer.close()
    elif cz == "eio":
        run.fault_exc = OSError(errno.EIO, "injected EIO")
        st.rfault = [cause[1], run.fault_exc]
    elif cz == "epipe":
        run.fault_exc = OSError(errno.EPIPE, "injected EPIPE")
        st.wfault = [cause[1], run.fault_exc]
    elif cz == "wio":
        run.fault_exc = OSError(errno.EIO, "injected write EIO")
        st.wfault = [cause[1], run.fault_exc]


# --------------------------------------------------------------------------
# read/write scenario

async def _rw(case, ctx, lm):
    lm.attach_loop(asyncio.get_running_loop())
    run = Run(case, ctx, lm)
    run.cause = tuple(case["cause"])
    S = run.S
    a, b = wire.socketpair()
    a2 = a.dup()
    if case.get("small_sndbuf"):
        a.setsockopt(socket.SOL_SOCKET, socket.SO_SNDBUF, 1)
    st = CStream(a, read_plan=list(case["plan"]) if case["plan"] else None, read_chunk_size=case["chunk"])
    run.st = st
    peer = wire.Peer(b)

    def set_cb():
        if not st.closed():
            run.cb_set_before_close = True
        st.set_close_callback(run.on_close_cb)

    async def quiesce():
        await settle()
        run.track_ghost(st)
        run.poll_reads(st)
        run.poll_writes(st)

    def send(n):
        seg = S[run.sent:run.sent + n]
        run.sent += len(seg)
        if peer.sock is not None and seg:
            try:
                peer.sock.send(seg)
            except OSError:
                pass

    try:
        if case["cb"] == "early":
            set_cb()
        toks = list(case["toks"])
        k = case["k"]
        for idx in range(len(toks) + 1):
            if not run.ok:
                break
            if idx == k:
                if case["cb"] == "late":
                    set_cb()
                apply_cause(run, st, peer, a2)
                run.poll_reads(st)
                run.poll_writes(st)
            if idx == len(toks):
                break
            t = toks[idx]
            if t[0] == "R":
                run.issue_read(st, t[1])
            elif t[0] == "W":
                run.issue_write(st, t[1])
                run.poll_writes(st)
            elif t[0] == "A":
                send(t[1])
                if t[2]:
                    await quiesce()
            elif t[0] == "P":
                peer.pump()
                await quiesce()
            elif t[0] == "S":
                await quiesce()
            elif t[0] == "C":
                await run.cancel(st, t[1], t[2])
                run.poll_reads(st)
                run.poll_writes(st)
        # final phase: deliver the rest, let blocked writes drain (or hit their fault), then probe the closed stream
        if run.ok:
            send(len(S))
            for _ in range(4):
                await quiesce()
                peer.pump()
            await quiesce()
        if run.ok and st.closed():
            ctx.count("closed_by_cause")
            before_cb = run.cb_count
            run.issue_write(st, "small")
            run.issue_read(st, ("bytes", 1, True))
            ctx.count("second_close_checked")
            ctx.count("oracle_evals")
            try:
                st.close()
            except Exception as e:
                run.bad("close/second-close-raises", "calling close() on a closed stream raised", {"error": repr(e)})
            run.issue_write(st, "small")
            await quiesce()
            await quiesce()
            if run.ok and run.cb_count > max(1, before_cb):
                run.bad("close-callback/count-many", "close callback ran again after a second close()", {"count": run.cb_count})
        elif run.ok:
            ctx.count("cause_not_triggered_stream_still_open")
        if run.ok:
            await quiesce()
            run.poll_reads(st, final=True)
            run.poll_writes(st, final=True)
        if run.ok:
            run.check_callback(st)
        if run.ok and st.closed():
            ctx.count("oracle_evals")
            if not run.error_ok(st.error):
                run.bad("stream/error-attribute-mismatch", "stream.error is not the error that closed the stream",
                        {"stream_error": repr(st.error)})
        if run.ok:
            bad = run.uncaught_logs()
            ctx.count("oracle_evals")
            if bad:
                run.bad("log/uncaught-exception", "close workload produced an uncaught-exception / InvalidStateError log record",
                        {"records": bad[:3]})
    finally:
        try:
            if not st.closed():
                st.close()
        except Exception:
            pass
        for s in (a2,):
            try:
                s.close()
            except Exception:
                pass
        peer.close()
    return run


# --------------------------------------------------------------------------
# connect scenario

async def _conn(case, ctx, lm):
    global _SEQ
    lm.attach_loop(asyncio.get_running_loop())
    run = Run(case, ctx, lm)
    target = case["target"]
    _SEQ += 1
    path = os.path.join(_tmpdir(), f"s{_SEQ}")
    lsock = None
    if target in ("listen", "refuse"):
        lsock = socket.socket(socket.AF_UNIX, socket.SOCK_STREAM)
        lsock.bind(path)
        if target == "listen":
            lsock.listen(4)
        lsock.setblocking(False)
    sock = socket.socket(socket.AF_UNIX, socket.SOCK_STREAM)
    sock.setsockopt(socket.SOL_SOCKET, socket.SO_SNDBUF, 1)
    st = CStream(sock)
    run.st = st
    run.cause = ("none",)
    acc = None
    rx = bytearray()

    def pump():
        nonlocal acc
        if lsock is not None and target == "listen" and acc is None:
            try:
                acc, _ = lsock.accept()
                acc.setblocking(False)
            except OSError:
                pass
        if acc is not None:
            d, _eof = wire.recv_available(acc)
            rx.extend(d)

    try:
        if case["cb"]:
            run.cb_set_before_close = True
            st.set_close_callback(run.on_close_cb)
        ctx.count("cause:connect_" + target)
        if target != "listen":
            run.cause = (target,)
        run.connect = {"fut": None, "raised": None}
        try:
            run.connect["fut"] = st.connect(path)
        except Exception as e:
            run.connect["raised"] = e
        closed_by_script = False
        for t in case["toks"]:
            if t[0] == "W":
                run.issue_write(st, t[1])
            elif t[0] == "X":
                if not st.closed():
                    run.cause = tuple(t[1])
                    closed_by_script = True
                if t[1][0] == "close":
                    run.local_close(st)
                else:
                    run.local_close(st, exc_info=run.E)
            elif t[0] == "C":
                await run.cancel(st, t[1], t[2])
            elif t[0] == "S":
                await settle()
                pump()
            elif t[0] == "R":
                if st._connecting and not st.closed():
                    ctx.count("unspecified_read_while_connecting_skipped")   # documented as non-portable
                    continue
                run.issue_read(st, t[1])
        for _ in range(4):
            await settle()
            pump()
        run.poll_writes(st, final=True)
        run.poll_reads(st, final=True)
        cf = run.connect
        ctx.count("oracle_evals")
        if cf["raised"] is not None:
            run.bad(f"connect/raises-{type(cf['raised']).__name__}", "connect() raised instead of returning a future",
                    {"error": repr(cf["raised"])})
        elif cf.get("cancelled"):
            # the application gave the connect future up; only the other futures / the callback are constrained
            ctx.count("connect_future_cancelled_by_application")
        elif not cf["fut"].done():
            if st.closed():
                run.bad("connect/pending-after-close", "connect future still pending after the stream closed", {})
            else:
                run.bad("connect/pending-at-quiescence", "connect to a listening unix socket never completed", {})
        elif cf["fut"].exception() is not None:
            e = cf["fut"].exception()
            if target == "listen" and not closed_by_script:
                run.bad("connect/failed-to-listening-address", "connect failed although the address is listening and nothing closed the stream",
                        {"error": repr(e)})
            else:
                ctx.count("connect_failed_refused" if target != "listen" else "connect_failed_at_close")
                run.events += 1
                run.check_closed_error(e, "connect", {"target": target})
                if run.ok and not st.closed():
                    run.bad("connect/failed-on-open-stream", "connect future failed but the stream is not closed", {})
        else:
            ctx.count("connect_resolved")
            if cf["fut"].result() is not st:
                run.bad("connect/result-not-stream", "connect future did not resolve with the stream itself", {})
            if target != "listen":
                run.bad("connect/succeeded-to-dead-address", "connect succeeded although nothing listens at the address", {})
            # was it resolved after the stream had been closed by the script?
            if closed_by_script and case["toks"] and _first_close_before_first_settle(case["toks"]):
                run.bad("connect/succeeded-after-close", "connect future succeeded although the stream was closed while connecting", {})
        if run.ok:
            # no write issued after close / failed at close may have delivered bytes; successful ones must have
            ok_bytes = sum(w["size"] for w in run.writes if w["state"] == "ok")
            ctx.count("oracle_evals")
            if st.closed() and len(rx) > st.bytes_to_transport:
                run.bad("connect/peer-received-more-than-sent", "acceptor received bytes the stream never handed to the transport", {})
            if not st.closed() and target == "listen":
                for _ in range(300):
                    await settle()
                    pump()
                    run.poll_writes(st)
                    if not any(w["state"] == "pending" for w in run.writes):
                        break
                await settle()
                pump()
                ok_bytes = sum(w["size"] for w in run.writes if w["state"] == "ok")
                if any(w["state"] == "pending" for w in run.writes) or len(rx) < ok_bytes:
                    run.bad("connect/writes-during-connect-not-delivered",
                            "data written while connecting was not delivered after the connection completed",
                            {"rx": len(rx), "ok_bytes": ok_bytes, "states": [w["state"] for w in run.writes]})
        if run.ok:
            run.check_callback(st)
        if run.ok and st.closed():
            ctx.count("oracle_evals")
            if not run.error_ok(st.error):
                run.bad("stream/error-attribute-mismatch", "stream.error is not the error that closed the stream",
                        {"stream_error": repr(st.error)})
            ctx.count("second_close_checked")
            before = run.cb_count
            try:
                st.close()
            except Exception as e:
                run.bad("close/second-close-raises", "calling close() on a closed stream raised", {"error": repr(e)})
            run.issue_write(st, "small")
            await settle()
            run.poll_writes(st, final=True)
            if run.ok and run.cb_count > max(1, before):
                run.bad("close-callback/count-many", "close callback ran again after a second close()", {"count": run.cb_count})
        if run.ok:
            bad = run.uncaught_logs()
            ctx.count("oracle_evals")
            if bad:
                run.bad("log/uncaught-exception", "connect workload produced an uncaught-exception log record", {"records": bad[:3]})
    finally:
        try:
            if not st.closed():
                st.close()
        except Exception:
            pass
        for s in (acc, lsock):
            if s is not None:
                try:
                    s.close()
                except Exception:
                    pass
        try:
            os.unlink(path)
        except OSError:
            pass
    return run


def _first_close_before_first_settle(toks):
    for t in toks:
        if t[0] == "S":
            return False
        if t[0] == "X":
            return True
    return False


_LM = None
_N = 0


def run_case(case, ctx):
    global _LM, _N
    if _LM is None:
        _LM = logmon.LogMon()
        _LM.__enter__()
    _LM.records.clear()
    _LM.loop_exceptions.clear()
    run = vloop.run(_conn if case["kind"] == "conn" else _rw, case, ctx, _LM, collect=False)
    _N += 1
    gc.collect(1 if _N % 100 else 2)
    if case["kind"] == "conn":
        nontriv = len(case["toks"]) >= 1
        ctx.mark(("conn", case["target"], case["cb"], tuple(map(tuple, case["toks"]))), nontriv)
    else:
        nontriv = run.events >= 1 and run.cause_applied
        ctx.mark(("rw", case["S"], tuple(case["toks"]), case["chunk"], repr(case["plan"]), case["cb"],
                  case["k"], tuple(case["cause"])), nontriv)
        if nontriv and len(case["S"]) < 30:
            ctx.sample({k: case[k] for k in ("S", "toks", "k", "cause", "cb", "chunk", "plan")}, limit=3)
