"""C06 — HTTPHeaders behaves as a case-insensitive insertion-ordered multimap.

History + executable model: every operation is applied to the real HTTPHeaders
and to a 20-line reference; after *every* operation all observables of every
live map (originals and copies) are compared.
"""
from __future__ import annotations

import copy
import itertools
import pickle

from vf import core

core.use_repo()
from tornado.httputil import HTTPHeaders, HTTPInputError  # noqa: E402

PROP = "C06"
META = {
    "level": "exploration",
    "technique": "reference-model monitor over operation histories (exhaustive small scope + random), all observables compared after every step",
    "level_text": "Every operation history (exhaustive up to a bounded length over a case-variant name alphabet, plus long random ones) is executed on the real HTTPHeaders and on a sequential multimap model; all observables (get, [], get_list, in, len, iteration, get_all, str/parse round trip, copy independence, deletability of present names) are compared after every step.",
    "level_note": "Trusts the 20-line reference multimap; names are compared case-insensitively (presentation case is not pinned by the statement); values have no leading/trailing whitespace (field-value grammar); continuation lines are only issued while the last parsed name is still present.",
    "design_ref": "DESIGN.md §4 C06",
    "engine": "refmodel",
}
RULE = ("cases are operation histories over case-variant name families (a/A, x-y/X-Y/x-Y, x_id/X_Id/X_ID, p3p/P3P, a.b/A.B, x-a1b/X-A1B, b) and 4 values; exhaustive by length "
        "for the stated alphabets plus seeded random histories of length <= 8 (thorough <= 12); "
        "a history is non-trivial if it has >= 2 mutating ops on names equal modulo case; "
        "distinct by the op tuple")
FLOORS = {"quick": 2000, "thorough": 50000}
ASSUMPTIONS = ["reference multimap model is correct", "single-threaded use",
               "mutating the list returned by get_list is outside the statement"]
REQUIRED_COUNTERS = ["oracle_evals", "roundtrip_evals"]

NAMES = ["a", "A", "x-y", "X-Y", "x-Y", "b", "x_id", "X_Id", "X_ID", "p3p", "P3P", "a.b", "A.B", "x-a1b", "X-A1B"]
VALUES = ["1", "v w", "", "é,z"]
MUT = {"add", "set", "del", "pop", "setdefault", "update", "line", "cont"}


def EXHAUSTIVE(tier):
    return ("all histories of length <= 3 over the full op alphabet and length <= %d over the reduced alphabet"
            % (4 if tier == "quick" else 5))


def op_alphabet(names, values, reduced=False):
    ops = []
    for n in names:
        for v in values:
            ops.append(("add", n, v))
            ops.append(("set", n, v))
        ops.append(("del", n))
        if not reduced:
            ops.append(("pop", n))
            ops.append(("setdefault", n, values[0]))
            ops.append(("update", n, values[-1]))
            ops.append(("line", n, values[0]))
    ops.append(("cont", "more"))
    ops.append(("copy",))
    if not reduced:
        ops.append(("copycopy",))
        ops.append(("pickle",))
        ops.append(("switch",))
    else:
        ops.append(("switch",))
    return ops


FULL = op_alphabet(["a", "A", "x-Y"], ["1", "v w"])
# second exhaustive alphabet: case variants where an upper-case letter follows a non-letter other than '-'
# (title-casing and per-word capitalisation disagree on these: X_Id / P3P / A.B)
FULL2 = op_alphabet(["x_id", "X_Id", "P3P", "p3p"], ["1"])
REDUCED = op_alphabet(["a", "A"], ["1", "2"], reduced=True)
RAND = op_alphabet(NAMES, VALUES)


def shards(tier, seed):
    out = []
    # exhaustive length<=3 over FULL, sharded by first op
    for i in range(len(FULL)):
        out.append({"kind": "exh", "alpha": "full", "first": i, "maxlen": 3})
    for i in range(len(FULL2)):
        out.append({"kind": "exh", "alpha": "full2", "first": i, "maxlen": 3})
    L = 4 if tier == "quick" else 5
    for i in range(len(REDUCED)):
        out.append({"kind": "exh", "alpha": "reduced", "first": i, "maxlen": L})
    nrand = 20000 if tier == "quick" else 1000000
    k = 16
    for j in range(k):
        out.append({"kind": "rand", "n": nrand // k, "maxlen": 8 if tier == "quick" else 12, "j": j})
    return out


def gen_cases(spec):
    if spec["kind"] == "exh":
        alpha = {"full": FULL, "full2": FULL2}.get(spec["alpha"], REDUCED)
        first = alpha[spec["first"]]
        yield (first,)
        for L in range(1, spec["maxlen"]):
            for rest in itertools.product(alpha, repeat=L):
                yield (first,) + rest
    else:
        rng = core.rng_for(spec["seed"], PROP, spec["j"])
        for _ in range(spec["n"]):
            L = rng.randint(2, spec["maxlen"])
            yield tuple(rng.choice(RAND) for _ in range(L))


def directed_cases():
    # regression witnesses (see known_findings.jsonl 'fixed:' lines)
    yield (("add", "a", "1"), ("add", "A", "2"), ("del", "a"))
    yield (("add", "a", "1"), ("add", "a", "2"), ("del", "A"), ("add", "a", "3"))
    yield (("line", "x-y", "1"), ("cont", "more"), ("add", "X-Y", "2"), ("del", "x-Y"))


class Model:
    def __init__(self):
        self.d = {}       # lower name -> list of values (insertion ordered)
        self.last = None

    def clone(self):
        m = Model()
        m.d = {k: list(v) for k, v in self.d.items()}
        m.last = None  # a copy is built by add(): last key = last added; we never issue cont right after copy
        return m


def observe(h, m, ctx, step, which):
    """Compare every observable of real map h with model m."""
    ok = True
    probe = NAMES

    def bad(obs, got, want):
        nonlocal ok
        ok = False
        ctx.violation(f"{step[0]}/{obs}", f"after {step[0]} observable {obs} differs from the multimap model",
                      {"step": step, "map": which, "got": got, "want": want,
                       "model": m.d})

    ctx.count("oracle_evals")
    if len(h) != len(m.d):
        bad("len", len(h), len(m.d))
    keys = [k.lower() for k in h]
    if keys != list(m.d):
        bad("iter", keys, list(m.d))
    if [k.lower() for k in h.keys()] != list(m.d):
        bad("keys", list(h.keys()), list(m.d))
    want_all = [(k, v) for k, vs in m.d.items() for v in vs]
    got_all = [(k.lower(), v) for k, v in h.get_all()]
    if got_all != want_all:
        bad("get_all", got_all, want_all)
    want_items = [(k, ",".join(vs)) for k, vs in m.d.items()]
    try:
        got_items = [(k.lower(), v) for k, v in h.items()]
    except Exception as e:
        got_items = repr(e)
    if got_items != want_items:
        bad("items", got_items, want_items)
    for n in probe:
        ln = n.lower()
        pres = ln in m.d
        if (n in h) != pres:
            bad("contains", n in h, pres)
        want = ",".join(m.d[ln]) if pres else None
        got = h.get(n)
        if got != want:
            bad("get", got, want)
        try:
            g2 = h[n]
        except KeyError:
            g2 = None
        if g2 != want:
            bad("getitem", g2, want)
        gl = list(h.get_list(n))
        if gl != (m.d[ln] if pres else []):
            bad("get_list", gl, m.d.get(ln, []))
    # serialise / parse round trip
    ctx.count("roundtrip_evals")
    try:
        h2 = HTTPHeaders.parse(str(h))
        if list(h2.get_all()) != list(h.get_all()) or not (h2 == h):
            bad("roundtrip", list(h2.get_all()), list(h.get_all()))
    except Exception as e:
        bad("roundtrip-raises", repr(e), None)
    return ok


def apply(op, h, m, ctx):
    """Apply op to real map h and model m. Returns optional new (h, m) pair."""
    kind = op[0]
    if kind == "add":
        _, n, v = op
        h.add(n, v)
        m.d.setdefault(n.lower(), []).append(v)
        m.last = n.lower()
    elif kind == "set":
        _, n, v = op
        h[n] = v
        m.d[n.lower()] = [v]
    elif kind == "del":
        n = op[1]
        pres = n.lower() in m.d
        try:
            del h[n]
            raised = None
        except KeyError as e:
            raised = e
        if pres and raised is not None:
            ctx.violation("del/raises-KeyError-for-present-name",
                          "del h[name] raised KeyError although `name in h` was true",
                          {"op": op, "model": m.d})
            # keep the two sides aligned for the remaining steps
            h._as_list.pop(_norm(n), None)
            h._combined_cache.pop(_norm(n), None)
        if not pres and raised is None:
            ctx.violation("del/absent-name-did-not-raise", "del of an absent name did not raise", {"op": op})
        m.d.pop(n.lower(), None)
    elif kind == "pop":
        n = op[1]
        want = ",".join(m.d[n.lower()]) if n.lower() in m.d else "DEF"
        try:
            got = h.pop(n, "DEF")
        except KeyError as e:
            got = repr(e)
            h._as_list.pop(_norm(n), None)
            h._combined_cache.pop(_norm(n), None)
        if got != want:
            ctx.violation("pop/result", "pop(name, default) returned a value different from the model's",
                          {"op": op, "got": got, "want": want})
        m.d.pop(n.lower(), None)
    elif kind == "setdefault":
        _, n, v = op
        want = ",".join(m.d[n.lower()]) if n.lower() in m.d else v
        got = h.setdefault(n, v)
        if n.lower() not in m.d:
            m.d[n.lower()] = [v]
        if got != want:
            ctx.violation("setdefault/result", "setdefault returned a different value", {"op": op, "got": got, "want": want})
    elif kind == "update":
        _, n, v = op
        h.update({n: v})
        m.d[n.lower()] = [v]
    elif kind == "line":
        _, n, v = op
        h.parse_line(f"{n}:  {v} \r\n")
        m.d.setdefault(n.lower(), []).append(v)
        m.last = n.lower()
    elif kind == "cont":
        if m.last is None or m.last not in m.d:
            ctx.count("cont_skipped_unspecified")
            return None
        h.parse_line(f"\t {op[1]}\r\n")
        if m.d[m.last][-1] == "":
            # RFC 9112 5.2: the fold becomes SP and surrounding OWS is not part of the value
            m.d[m.last][-1] = op[1]
            real = h._as_list[_norm(m.last)]
            if real[-1] != op[1]:
                ctx.violation("cont/fold-onto-empty-value-keeps-leading-space",
                              "a continuation line folded onto an empty value yields a value with leading whitespace "
                              "(not a field-value: str()/parse() no longer round-trips and copy() raises)",
                              {"op": op, "got": real[-1], "want": op[1]})
                real[-1] = op[1]
                h._combined_cache.pop(_norm(m.last), None)
        else:
            m.d[m.last][-1] += " " + op[1]
    elif kind == "copy":
        return h.copy(), m.clone()
    elif kind == "copycopy":
        return copy.copy(h), m.clone()
    elif kind == "pickle":
        h2 = pickle.loads(pickle.dumps(h))
        m2 = m.clone()
        m2.last = m.last
        return h2, m2
    return None


def _norm(n):
    from tornado.httputil import _normalize_header
    return _normalize_header(n)


def run_case(case, ctx):
    pairs = [(HTTPHeaders(), Model())]
    cur = 0
    mut_names = []
    for step in case:
        if step[0] == "switch":
            cur = (cur + 1) % len(pairs)
            continue
        h, m = pairs[cur]
        try:
            new = apply(step, h, m, ctx)
        except HTTPInputError as e:
            ctx.violation(f"{step[0]}/raises-HTTPInputError", "valid operation rejected", {"step": step, "err": repr(e)})
            return
        except Exception as e:
            ctx.violation(f"{step[0]}/raises-{type(e).__name__}", "operation raised unexpectedly",
                          {"step": step, "err": repr(e), "model": m.d})
            return
        if new is not None:
            pairs.append(new)
            if new[1].last is None:
                # copy(): the copy's continuation target is unspecified -> never continue before a new add
                pass
        if step[0] in MUT and len(step) > 1:
            mut_names.append(step[1].lower())
        ok = True
        for i, (hh, mm) in enumerate(pairs):
            # Observing must not perturb: __getitem__ fills the combined-value cache, which would
            # mask stale/missing cache entries. So all observables are read from a state-preserving
            # clone (pickle keeps _as_list, _combined_cache and _last_key exactly as they are).
            ok = observe(pickle.loads(pickle.dumps(hh)), mm, ctx, step, i) and ok
        if not ok:
            return
    nontriv = len(mut_names) >= 2 and len(mut_names) != len(set(mut_names))
    ctx.mark(case, nontriv)
    if nontriv:
        ctx.sample([list(s) for s in case])
