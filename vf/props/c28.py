"""C28 — framework-generated redirects never point to another site.

@removeslash / @addslash handlers behind catch-all routes, StaticFileHandler with
default_filename mounted at / and at a prefix, and @authenticated handlers with
relative / absolute / query-carrying login_url, all behind the real HTTPServer.
Every 3xx Location is classified by two independent URL classifiers (RFC 3986
reference syntax, and a WHATWG-style one: tab/newline removal, backslash = slash).
"""
from __future__ import annotations

import re

from vf import core
from vf.refs import webrig
from vf.refs.staticfx import Fixture

core.use_repo()
import tornado.web  # noqa: E402

PROP = "C28"
META = {
    "level": "exploration",
    "technique": "two independent URL classifiers (RFC 3986 reference / WHATWG-style) on every Location produced by the slash decorators, static directory redirects and @authenticated, through the real server",
    "level_text": "Origin-form request targets built from 1-4 leading slashes, backslashes, encoded slashes/backslashes/CR/LF/tab, host-like segments, userinfo, dot segments, with and without query, are sent (GET/HEAD) to @removeslash and @addslash handlers behind '/(.*)' and '.*' routes, to StaticFileHandler(default_filename) mounted at '/' and '/p/', and to @authenticated handlers under three login_url shapes. Each 3xx Location must be classified 'path on the same host' by both classifiers (no scheme, no '//' or '/\\' or '\\\\' authority start); @authenticated must redirect to exactly login_url or login_url?next=<percent-encoded>.",
    "level_note": "Trusts the two 10-line classifiers. Request targets that are not origin-form (absolute-form 'http://...', targets starting with a backslash or without '/') are executed for safety only: what 'same host' means for them is not pinned.",
    "design_ref": "DESIGN.md §4 C28",
    "engine": "wire",
}
RULE = ("a case is (application, request target, method); non-trivial when the response is a 3xx whose Location was "
        "classified; distinct by the case tuple")
FLOORS = {"quick": 3000, "thorough": 60000}
ASSUMPTIONS = ["RFC 3986 / WHATWG-style classifiers are correct", "origin-form request targets"]
REQUIRED_COUNTERS = ["oracle_evals", "redirects_judged", "removeslash_redirects", "addslash_redirects", "static_redirects",
                     "auth_redirects", "safety_evals"]

LOGIN = {"auth-rel": "/login", "auth-abs": "https://sso.example.test/login", "auth-q": "/login?from=app"}
APPS = ["rm", "rm-any", "add", "add-any", "static-root", "static-prefix", "auth-rel", "auth-abs", "auth-q"]


def shards(tier, seed):
    if tier == "quick":
        return [{"n": 1400} for _ in range(16)]
    return [{"n": 30000} for _ in range(32)]


# ------------------------------------------------------------------ classifiers

def rfc3986_class(loc: str):
    """RFC 3986 §4.1/4.2: URI (scheme ':' ...) | network-path ('//' authority) | path reference."""
    if re.match(r"[A-Za-z][A-Za-z0-9+.\-]*:", loc):
        return "scheme"
    if loc.startswith("//"):
        return "network-path"
    return "path"


def whatwg_class(loc: str):
    """WHATWG URL parsing against an http(s) base: strip C0/space at the ends, drop tab/CR/LF everywhere,
    treat '\\' as '/', then scheme / '//' detection."""
    s = loc.strip("".join(chr(c) for c in range(0x21)))
    s = s.replace("\t", "").replace("\n", "").replace("\r", "")
    if re.match(r"[A-Za-z][A-Za-z0-9+.\-]*:", s):
        return "scheme"
    s = s.replace("\\", "/")
    if s.startswith("//"):
        return "network-path"
    return "path"


# ------------------------------------------------------------------ application

def make_apps(fx):
    class Rm(tornado.web.RequestHandler):
        @tornado.web.removeslash
        def get(self, *a):
            self.write("rm")

        head = get

    class Add(tornado.web.RequestHandler):
        @tornado.web.addslash
        def get(self, *a):
            self.write("add")

        head = get

    class Auth(tornado.web.RequestHandler):
        @tornado.web.authenticated
        def get(self, *a):
            self.write("secret")

        head = get

    q = dict(log_function=lambda h: None)
    st = {"path": fx.root, "default_filename": "index.html"}
    apps = {
        "rm": tornado.web.Application([(r"/(.*)", Rm)], **q),
        "rm-any": tornado.web.Application([(r".*", Rm)], **q),
        "add": tornado.web.Application([(r"/(.*)", Add)], **q),
        "add-any": tornado.web.Application([(r".*", Add)], **q),
        "static-root": tornado.web.Application([(r"/(.*)", tornado.web.StaticFileHandler, st)], **q),
        "static-prefix": tornado.web.Application([(r"/p/(.*)", tornado.web.StaticFileHandler, st),
                                                  (r"/p(.*)", tornado.web.StaticFileHandler, st)], **q),
    }
    for k, url in LOGIN.items():
        apps[k] = tornado.web.Application([(r".*", Auth)], login_url=url, **q)
    return apps


def make_session(lm):
    fx = Fixture()
    apps = make_apps(fx)
    s = webrig.Session(apps["rm"], lm)
    s.by_app = {"rm": s}
    for k, a in apps.items():
        if k != "rm":
            s.by_app[k] = webrig.Session(a, lm)
    s.fx = fx
    orig_close = s.close

    async def close_all():
        for k, x in s.by_app.items():
            if x is not s:
                await x.close()
        await orig_close()
        fx.remove()
    s.close = close_all
    tornado.web.StaticFileHandler.reset()
    return s


# ------------------------------------------------------------------ generation

HOSTS = ["evil.com", "evil.com:8080", "user@evil.com", "user:pw@evil.com", "[::1]", "127.0.0.1", "evil.com.", "xn--e1afmkfd.test", "evil"]
LEAD = ["/", "/", "//", "//", "///", "////", "/\\", "/\\/", "\\", "\\\\", "\\/", "/%2f", "/%2F", "/%5c", "/%5C", "/.//", "/./", "/..//",
        "/a/..//", "/%2e/", "/%09/", "//%09/", "/%0d%0a/", "/;/", "/:/", "/@", "//@", "/%2f%2f", "/%5c%5c", "//%5c", "/%00/", "/\x80/"]
MID = ["", "sub", "sub/deep", "empty", "a.txt", "x", "a/b", "%2e%2e", "..", ".", "sub/..", "index.html", "http:", "https:", "javascript:alert(1)",
       "%0d%0aSet-Cookie:x=1", "\\", "%5c", "?", "#frag", ";p=1", "*", "~", "é".encode("utf-8").decode("latin-1")]
TRAIL = ["", "", "/", "/", "//", "///", "/.", "/./", "%2f", "/\\", "\\", "/?", "/#"]
QUERY = ["", "", "", "?", "?a=1", "?next=//evil.com", "?a=1&b=//x/", "?//evil.com/", "?%0d%0a", "??", "?a=b/"]


STATIC_LEAD = ["/", "/", "/", "//", "///", "/\\", "/\\\\", "/./", "/%2f", "/%5c", "/.//", "/\\/", "//\\"]


def gen_target(rng):
    k = rng.random()
    if k < 0.45:
        t = rng.choice(LEAD) + rng.choice(HOSTS) + rng.choice(["", "/", "/x", "/sub", "/..", "/%2e%2e"]) + rng.choice(TRAIL)
    elif k < 0.8:
        t = rng.choice(LEAD) + rng.choice(MID) + rng.choice(TRAIL)
    elif k < 0.9:
        t = rng.choice(["/p", "/p/", "/p//", "/p/sub", "/p/sub/", "/p//sub", "/p/./sub", "/p/sub/deep", "/p/empty", "/psub", "/p/..", "/p%2fsub",
                        "/sub", "/sub/", "//sub", "///sub", "/./sub", "/sub/deep", "/sub//deep", "/sub/../sub", "/sub/%2e%2e/sub", "/empty",
                        "/%2e/sub", "/sub%2f", "/.", "/..", "/%2e", "/sub/.", "/sub/deep/..", "//p/sub", "/\\sub", "/sub\\"]) + rng.choice(["", "", "/", "//"])
    else:
        t = "".join(rng.choice(["/", "/", "\\", "%2f", "%5c", ".", "..", "evil.com", "sub", "@", ":", "%09", "%0a", "%20", ";", "a"])
                    for _ in range(rng.randint(1, 8)))
        if rng.random() < 0.8 and not t.startswith("/"):
            t = "/" + t
    if rng.random() < 0.1:
        t = rng.choice(["http://evil.com", "https://evil.com/x", "evil.com", "*"]) + rng.choice(["", "/", "//"])   # not origin-form
    return t + rng.choice(QUERY)


def gen_cases(spec):
    rng = core.rng_for(spec["seed"], PROP, spec["shard"])
    for _ in range(spec["n"]):
        app = rng.choice(APPS)
        target = gen_target(rng)
        if app.startswith("static") and rng.random() < 0.6:
            pre = "/p" if app == "static-prefix" and rng.random() < 0.8 else ""
            target = pre + rng.choice(STATIC_LEAD) + rng.choice(["sub", "sub/deep", "empty", "", "sub/..", "sub/%2e%2e", "%2e%2e/root", "sub/./deep",
                                                                 "evil.com/..", "evil.com/%2e%2e", "evil.com/%2e%2e/sub", "evil.com:80/../sub/deep",
                                                                 "a.txt", "nonexistent"]) + rng.choice(["", "", "", "/", "?v=1"])
        yield {"app": app, "target": target, "method": rng.choice(["GET", "GET", "GET", "HEAD", "POST"])}


def directed_cases():
    yield {"app": "rm", "target": "//evil.com/", "method": "GET"}
    yield {"app": "add", "target": "//evil.com", "method": "GET"}
    yield {"app": "rm-any", "target": "/\\evil.com/", "method": "GET"}
    yield {"app": "add-any", "target": "/\\evil.com", "method": "HEAD"}
    yield {"app": "rm", "target": "///evil.com/x/?a=1", "method": "GET"}
    yield {"app": "static-root", "target": "//sub", "method": "GET"}
    yield {"app": "static-root", "target": "/sub", "method": "GET"}
    yield {"app": "static-prefix", "target": "/p/sub", "method": "GET"}
    for a in ("auth-rel", "auth-abs", "auth-q"):
        yield {"app": a, "target": "//evil.com/?x=//y", "method": "GET"}


# ------------------------------------------------------------------ execution

def _sendable(t: str):
    try:
        b = t.encode("latin-1")
    except UnicodeEncodeError:
        return None
    if not b or not all(0x21 <= c <= 0x7E or c >= 0x80 for c in b):
        return None
    return b


NEXT_RE = re.compile(r"[A-Za-z0-9_.\-~%+]*\Z")


async def acase(case, ctx, sess):
    raw = _sendable(case["target"])
    if raw is None:
        ctx.count("skipped_not_sendable")
        return
    app, method = case["app"], case["method"]
    s = sess.by_app[app]
    try:
        r = await s.request(webrig.build_request(method, raw, body=b"" if method == "POST" else None), method)
    except webrig.WireError as e:
        ctx.violation(f"wire/{e.kind}", "response is not a well-framed HTTP message", {"why": e.why, "raw": e.raw, "case": case})
        return
    loc_b = r.get("location") if r else None
    wit = {"app": app, "request": method + " " + case["target"], "status": r.status if r else None, "location": loc_b}
    if not webrig.safety(ctx, s, r, "request"):
        return
    ctx.count("oracle_evals")
    if r is None:
        ctx.violation("no-response", "connection closed without a response", wit)
        return
    if r.status >= 500:
        ctx.violation(f"status-{r.status}/{app.split('-')[0]}", "server error", wit)
        return
    if not (300 <= r.status < 400):
        if loc_b is not None:
            ctx.violation("location-on-non-redirect", "Location header on a non-3xx response", wit)
        ctx.mark((app, case["target"], method), nontrivial=False)
        return
    if loc_b is None:
        ctx.violation("redirect-without-location", "3xx without Location", wit)
        return
    loc = loc_b.decode("latin-1")
    path = case["target"].split("?", 1)[0]
    origin_form = path.startswith("/")
    ctx.count("redirects_judged")
    kind = {"rm": "removeslash", "add": "addslash", "static": "static", "auth": "authenticated"}[app.split("-")[0]]
    ctx.count({"removeslash": "removeslash_redirects", "addslash": "addslash_redirects", "static": "static_redirects",
               "authenticated": "auth_redirects"}[kind])
    if kind == "authenticated":
        url = LOGIN[app]
        ok = loc == url if "?" in url else (loc.startswith(url + "?next=") and NEXT_RE.match(loc[len(url) + 6:]) is not None)
        if not ok:
            ctx.violation("authenticated/location-not-login-url", "@authenticated redirected somewhere other than login_url[?next=...]",
                          dict(wit, login_url=url))
            return
        ctx.mark((app, case["target"], method), nontrivial=True)
        return
    if not origin_form:
        ctx.count("unspecified_non_origin_form_target")
        ctx.mark((app, case["target"], method), nontrivial=False)
        return
    c1, c2 = rfc3986_class(loc), whatwg_class(loc)
    ctx.seen("location_classes", (c1, c2))
    if c1 != "path" or c2 != "path":
        if c1 == "network-path":
            shape = "protocol-relative"
        elif c1 == "scheme" or c2 == "scheme":
            shape = "scheme-qualified"
        else:
            shape = "backslash-authority"
        ctx.violation(f"{kind}/location-{shape}",
                      "a redirect derived from the request path points off-site (Location is not a same-host path for "
                      + ("RFC 3986 and WHATWG" if c1 != "path" and c2 != "path" else ("RFC 3986" if c1 != "path" else "WHATWG (browser)")) + " parsing)",
                      dict(wit, rfc3986=c1, whatwg=c2))
        return
    if ctx.mark((app, case["target"], method), nontrivial=True):
        if len(ctx.samples) < 3 and ("//" in path or "\\" in path):
            ctx.sample(wit)


def run_shard(spec, ctx):
    import itertools
    directed = list(directed_cases()) if spec.get("shard", 0) == 0 else []
    ctx.count("directed_cases", len(directed))
    webrig.run_cases(make_session, itertools.chain(directed, gen_cases(spec)), acase, ctx)


def run_case(case, ctx):
    webrig.run_cases(make_session, [case], acase, ctx, count_evals=False)
