"""C21 — escaping and encoding helpers are safe and invertible.

Pure-function oracle: round-trip identities, character-class scans and, for
parse_qs_bytes, a query string *built* by an independent percent-encoder from
known (name, value) byte pairs.
"""
from __future__ import annotations

from vf import core

core.use_repo()
from tornado import escape as E  # noqa: E402

PROP = "C21"
META = {
    "level": "exploration",
    "technique": "round-trip identities + character-class scans on generated text/bytes/JSON values; query strings built by an independent percent-encoder",
    "level_text": ("Generated Unicode texts (ASCII, controls, the five HTML specials densely, ready-made and truncated "
                   "entities, astral and combining characters, no lone surrogates), byte strings over all 256 values, nested "
                   "JSON values rich in '<', '/', '</script>' and U+2028, nested list/tuple/dict structures with bytes "
                   "leaves, values of foreign types, and query strings built from known byte pairs are pushed through the "
                   "real helpers; every identity the statement lists is evaluated on every case."),
    "level_note": ("Trusts Python's str/bytes codecs and == on JSON values; apostrophe may be escaped as &#x27; or &#39;; "
                   "None passed to utf8/to_unicode is documented pass-through and only counted; blank query values are only "
                   "generated with keep_blank_values=True; ';' '&' '=' '+' '%' '#' are always percent-encoded by the builder."),
    "design_ref": "DESIGN.md §4 C21",
    "engine": "oracle",
}
RULE = ("a case is (helper, value[, mode]); helpers html/url/json/utf8/types/recursive/qs in equal shares; values from the "
        "text, bytes, JSON and pair generators; non-trivial = the value contains at least one character/byte that the helper "
        "has to transform (special, non-ASCII, '</', bytes leaf, percent-encoded byte) or, for 'types', is a foreign type; "
        "distinct by (helper, repr(value), mode)")
FLOORS = {"quick": 40000, "thorough": 1000000}
ASSUMPTIONS = ["Python codecs and json equality are correct", "texts contain no lone surrogates (excluded by the statement)",
               "floats are finite"]
REQUIRED_COUNTERS = ["oracle_evals", "html_evals", "url_evals", "url_bytes_evals", "json_evals", "json_lt_slash_inputs",
                     "utf8_evals", "type_evals", "recursive_evals", "qs_evals"]

KINDS = ["html", "url", "json", "utf8", "types", "recursive", "qs"]

SPECIALS = ["<", ">", "&", "\"", "'"]
ENTS = ["&amp;", "&#38;", "&lt", "&lt;", "&gt;", "&quot;", "&#x27;", "&#39;", "&apos;", "&#x26;", "&amp;amp;", "&#0;",
        "&#xD800;", "&#1114112;", "&nbsp;", "&notin;", "&not", "&#", "&#x", "&;", "&&", "&amp", "&#128;", "&#x80;"]
ASTRAL = ["\U0001f600", "\U00010000", "\U0010ffff", "\U0001d11e"]
COMB = ["e\u0301", "\u0300", "\u200d", "\ufeff", "\u2028", "\u2029", "\ufffd", "\uffff", "\xa0", "\x85", "\u0130", "ß"]
URLISH = ["%", "%41", "%zz", "+", " ", "/", "?", "#", "=", "&", ";", "~", "%2B", "%20", "%", "a+b c", "%C3%A9", "%ff", ":", "@"]
JSONISH = ["</", "</script>", "<", "/", "<\\/", "\\", "\"", "\u2028", "\u2029", "<!--", "]]>", "</SCRIPT", "\\u003c/", "\x00", "\x1f", "\x7f"]
WORDS = ["a", "Z", "09", "hello world", "", "x", "\t", "\n", "\r\n", "\x00", "\x1b", "\x7f", "é", "中文", "Ω"]
POOLS = {"html": [SPECIALS, SPECIALS, ENTS, ASTRAL, COMB, WORDS, JSONISH],
         "url": [URLISH, URLISH, SPECIALS, ASTRAL, COMB, WORDS],
         "json": [JSONISH, JSONISH, SPECIALS, ASTRAL, COMB, WORDS],
         "utf8": [ASTRAL, COMB, WORDS, SPECIALS]}


def gen_text(rng, flavour):
    pools = POOLS[flavour]
    n = rng.choice([0, 1, 1, 2, 3, 4, 6, 10, 25])
    out = []
    for _ in range(n):
        if rng.random() < 0.08:
            c = rng.randrange(0x110000)
            if 0xD800 <= c <= 0xDFFF:
                c = 0x41
            out.append(chr(c))
        else:
            out.append(rng.choice(rng.choice(pools)))
    return "".join(out)


def gen_bytes(rng):
    n = rng.choice([0, 1, 2, 3, 5, 8, 20, 60])
    r = rng.random()
    if r < 0.5:
        return bytes(rng.randrange(256) for _ in range(n))
    if r < 0.8:
        return bytes(rng.choice(b"+ %/&=;?#~azAZ09\x00\xff\x80\xc3\xa9\n") for _ in range(n))
    return gen_text(rng, "url").encode("utf-8")


def gen_json(rng, depth=0):
    r = rng.random()
    if depth >= 3:
        r *= 0.6
    if r < 0.25:
        return gen_text(rng, "json")
    if r < 0.33:
        return rng.choice([0, 1, -1, 2 ** 31, -2 ** 63, 10 ** 30, rng.randrange(-1000, 1000)])
    if r < 0.41:
        return rng.choice([0.0, -0.0, 1.5, 1e308, 5e-324, -1e-7, 0.1, 1 / 3, rng.uniform(-1e6, 1e6), 1e22, 123456789.123456789])
    if r < 0.47:
        return rng.choice([True, False])
    if r < 0.52:
        return None
    if r < 0.6:
        return rng.choice(JSONISH)
    if r < 0.8:
        return [gen_json(rng, depth + 1) for _ in range(rng.randrange(0, 4))]
    return {gen_text(rng, "json") if rng.random() < 0.6 else rng.choice(JSONISH + ["k", ""]): gen_json(rng, depth + 1)
            for _ in range(rng.randrange(0, 4))}


class Foreign:
    pass


def gen_foreign(rng):
    return rng.choice([0, 1, -5, 1.5, True, False, [], ["a"], (), ("a",), {}, {"a": 1}, set(), bytearray(b"ab"), bytearray(),
                       memoryview(b"ab"), Foreign(), Foreign, object(), 1j, range(3), frozenset(), Ellipsis, len])


def gen_struct(rng, depth=0):
    """-> (value, expected): expected has exactly the bytes leaves decoded."""
    r = rng.random()
    if depth >= 3:
        r *= 0.5
    if r < 0.2:
        s = gen_text(rng, "utf8")
        return s.encode("utf-8"), s
    if r < 0.3:
        s = gen_text(rng, "utf8")
        return s, s
    if r < 0.4:
        v = rng.choice([0, 1.5, None, True, 7])
        return v, v
    if r < 0.5:
        v = rng.choice([frozenset([b"x"]), bytearray(b"q")])   # not list/tuple/dict/bytes: returned unchanged
        return v, v
    if r < 0.68:
        items = [gen_struct(rng, depth + 1) for _ in range(rng.randrange(0, 4))]
        return [a for a, _ in items], [b for _, b in items]
    if r < 0.84:
        items = [gen_struct(rng, depth + 1) for _ in range(rng.randrange(0, 4))]
        return tuple(a for a, _ in items), tuple(b for _, b in items)
    d, e = {}, {}
    for i in range(rng.randrange(0, 4)):
        k = "k%d%s" % (i, rng.choice(["", "é", "<"]))
        v, ev = gen_struct(rng, depth + 1)
        if rng.random() < 0.5:
            d[k.encode("utf-8")] = v
        else:
            d[k] = v
        e[k] = ev
    return d, e


_LIT = frozenset(b"abcdefghijklmnopqrstuvwxyzABCDEFGHIJKLMNOPQRSTUVWXYZ0123456789-._~")
_LIT2 = frozenset(b"!*'()/:@,$?[]")


def pct(rng, b, stats):
    out = bytearray()
    for c in b:
        r = rng.random()
        if c == 0x20 and r < 0.6:
            out += b"+"
            stats["plus"] = 1
        elif c in _LIT and r < 0.85:
            out.append(c)
        elif c in _LIT2 and r < 0.4:
            out.append(c)
        elif c >= 0x80 and r < 0.15:
            out.append(c)
            stats["rawhigh"] = 1
        else:
            out += (b"%%%02X" if rng.random() < 0.7 else b"%%%02x") % c
            stats["pct"] = 1
    return bytes(out)


def gen_qs(rng):
    npairs = rng.choice([1, 1, 2, 3, 5])
    pairs = []
    names = []
    for _ in range(npairs):
        if names and rng.random() < 0.35:
            name = rng.choice(names)
        else:
            name = b""
            while not name:
                name = gen_bytes(rng)[:8]
            names.append(name)
        val = gen_bytes(rng) if rng.random() < 0.9 else b""
        pairs.append((name, val))
    stats = {}
    q = b"&".join(pct(rng, n, stats) + b"=" + pct(rng, v, stats) for n, v in pairs)
    keep_blank = any(not v for _, v in pairs) or rng.random() < 0.3
    return pairs, q, keep_blank, bool(stats)


def shards(tier, seed):
    k = 16
    n = 280000 if tier == "quick" else 14000000
    return [{"n": n // k, "j": j} for j in range(k)]


def gen_cases(spec):
    rng = core.rng_for(spec["seed"], PROP, spec["j"])
    for i in range(spec["n"]):
        kind = KINDS[i % len(KINDS)]
        if kind == "html":
            yield (kind, gen_text(rng, "html"), rng.random() < 0.2)
        elif kind == "url":
            if rng.random() < 0.5:
                yield (kind, gen_text(rng, "url"), rng.random() < 0.5)
            else:
                yield (kind, gen_bytes(rng), rng.random() < 0.5)
        elif kind == "json":
            yield (kind, gen_json(rng), None)
        elif kind == "utf8":
            yield (kind, gen_text(rng, "utf8"), None)
        elif kind == "types":
            yield (kind, None, rng.randrange(1 << 30))
        elif kind == "recursive":
            yield (kind, None, rng.randrange(1 << 30))
        else:
            yield (kind, None, rng.randrange(1 << 30))


def directed_cases():
    yield ("html", "<a href=\"x\">&amp; it's</a> &#38; &lt", False)
    yield ("json", {"</script>": ["</", "<\\/", "a/b", 1.5, None]}, None)
    yield ("url", "a b+c/d?e=f&g%20", True)
    yield ("url", b"\x00\xff +%2B", True)
    yield ("url", b"\x00\xff +%2B", False)


# ---------------------------------------------------------------------------------------------

_HENTS = ("&amp;", "&lt;", "&gt;", "&quot;", "&#x27;", "&#39;")


def _strict_eq(a, b):
    """== plus same container/scalar kinds (so 1 vs True or [..] vs (..) is noticed)."""
    if type(a) is not type(b):
        return False
    if isinstance(a, (list, tuple)):
        return len(a) == len(b) and all(_strict_eq(x, y) for x, y in zip(a, b))
    if isinstance(a, dict):
        return len(a) == len(b) and all(k in b and _strict_eq(v, b[k]) for k, v in a.items())
    return a == b


def _has(s, chars):
    return any(c in s for c in chars)


def check_html(x, as_bytes, ctx):
    ctx.count("html_evals")
    arg = x.encode("utf-8") if as_bytes else x
    form = "bytes" if as_bytes else "str"
    y = E.xhtml_escape(arg)
    wit = {"x": x, "escaped": y, "form": form}
    if not ctx.check(isinstance(y, str), "html/escape-result-not-str", "xhtml_escape did not return str", wit):
        return
    ctx.check(not _has(y, "<>\"'"), "html/escape-leaves-special", "xhtml_escape output contains < > \" or '", wit)
    i = y.find("&")
    good = True
    while i != -1:
        if not y.startswith(_HENTS, i):
            good = False
            break
        i = y.find("&", i + 1)
    ctx.check(good, "html/escape-leaves-bare-ampersand", "xhtml_escape output has '&' outside the five entities", wit)
    # every entity it introduced stands for one input character: undoing the table must give x back
    z = E.xhtml_unescape(y)
    ctx.check(z == x, "html/unescape-escape-not-identity", "xhtml_unescape(xhtml_escape(x)) != x", dict(wit, back=z))
    zb = E.xhtml_unescape(y.encode("utf-8"))
    ctx.check(zb == x, "html/unescape-bytes-input-not-identity", "xhtml_unescape(utf8(xhtml_escape(x))) != x", dict(wit, back=zb))
    return _has(x, "<>\"'&")


def check_url(x, plus, ctx):
    p = "plus" if plus else "noplus"
    if isinstance(x, str):
        ctx.count("url_evals")
        y = E.url_escape(x, plus=plus)
        wit = {"x": x, "escaped": y, "plus": plus}
        if not ctx.check(isinstance(y, str), f"url/{p}/escape-result-not-str", "url_escape did not return str", wit):
            return
        z = E.url_unescape(y, plus=plus)
        ctx.check(z == x, f"url/{p}/str-roundtrip", "url_unescape(url_escape(x, plus), plus=plus) != x", dict(wit, back=z))
        z2 = E.url_unescape(y.encode("ascii", "replace"), plus=plus)
        ctx.check(z2 == x, f"url/{p}/str-roundtrip-bytes-input", "url_unescape(bytes(url_escape(x))) != x", dict(wit, back=z2))
        z3 = E.url_unescape(y, encoding=None, plus=plus)
        ctx.check(z3 == x.encode("utf-8"), f"url/{p}/encoding-none-roundtrip",
                  "url_unescape(url_escape(x), encoding=None) != utf8(x)", dict(wit, back=z3))
        return any(not (c.isascii() and (c.isalnum() or c in "-._~")) for c in x)
    ctx.count("url_bytes_evals")
    y = E.url_escape(x, plus=plus)
    wit = {"x": x, "escaped": y, "plus": plus}
    if not ctx.check(isinstance(y, str), f"url/{p}/escape-result-not-str", "url_escape did not return str", wit):
        return
    z = E.url_unescape(y, encoding=None, plus=plus)
    ctx.check(z == x, f"url/{p}/bytes-roundtrip", "url_unescape(url_escape(b, plus), encoding=None, plus=plus) != b", dict(wit, back=z))
    z2 = E.url_unescape(y.encode("ascii", "replace"), encoding=None, plus=plus)
    ctx.check(z2 == x, f"url/{p}/bytes-roundtrip-bytes-input", "bytes input form of the same identity", dict(wit, back=z2))
    zl = E.url_unescape(y, encoding="latin-1", plus=plus)
    ctx.check(zl == x.decode("latin-1"), f"url/{p}/latin1-roundtrip", "url_unescape(..., encoding='latin-1') != latin-1 text of b",
              dict(wit, back=zl))
    return any(c not in _LIT for c in x)


def _json_has_lt_slash(v):
    if isinstance(v, str):
        return "</" in v
    if isinstance(v, list):
        return any(_json_has_lt_slash(i) for i in v)
    if isinstance(v, dict):
        return any("</" in k or _json_has_lt_slash(i) for k, i in v.items())
    return False


def check_json(v, ctx):
    ctx.count("json_evals")
    y = E.json_encode(v)
    wit = {"v": repr(v)[:600], "encoded": y}
    if not ctx.check(isinstance(y, str), "json/encode-result-not-str", "json_encode did not return str", wit):
        return
    hot = _json_has_lt_slash(v)
    if hot:
        ctx.count("json_lt_slash_inputs")
    ctx.check("</" not in y, "json/output-contains-lt-slash", "json_encode output contains '</'", wit)
    try:
        z = E.json_decode(y)
    except Exception as e:
        ctx.violation("json/decode-of-encode-raises", "json_decode(json_encode(v)) raised", dict(wit, err=repr(e)))
        return hot
    ctx.check(_strict_eq(z, v), "json/roundtrip-str", "json_decode(json_encode(v)) != v", dict(wit, back=repr(z)[:600]))
    try:
        zb = E.json_decode(y.encode("utf-8"))
    except Exception as e:
        ctx.violation("json/decode-bytes-raises", "json_decode(utf8(json_encode(v))) raised", dict(wit, err=repr(e)))
        return hot
    ctx.check(_strict_eq(zb, v), "json/roundtrip-bytes", "json_decode(utf8(json_encode(v))) != v", dict(wit, back=repr(zb)[:600]))
    return hot or isinstance(v, (list, dict))


def check_utf8(s, ctx):
    ctx.count("utf8_evals")
    b = E.utf8(s)
    wit = {"s": s, "utf8": b}
    if not ctx.check(type(b) is bytes, "utf8/str-result-not-bytes", "utf8(str) did not return bytes", wit):
        return
    ctx.check(b == s.encode("utf-8"), "utf8/not-utf8-encoding", "utf8(s) is not the UTF-8 encoding of s", wit)
    ctx.check(E.to_unicode(b) == s, "utf8/to_unicode-utf8-not-identity", "to_unicode(utf8(s)) != s", dict(wit, back=E.to_unicode(b)))
    ctx.check(E.utf8(E.to_unicode(b)) == b, "utf8/utf8-to_unicode-not-identity", "utf8(to_unicode(b)) != b", wit)
    ctx.check(E.utf8(b) == b and type(E.utf8(b)) is bytes, "utf8/bytes-not-unchanged", "utf8(bytes) changed the value", wit)
    ctx.check(E.to_unicode(s) == s and type(E.to_unicode(s)) is str, "utf8/str-not-unchanged", "to_unicode(str) changed the value", wit)
    return not s.isascii()


def check_types(seedv, ctx):
    import random
    rng = random.Random(seedv)
    v = gen_foreign(rng)
    ctx.count("type_evals")
    tname = type(v).__name__
    for fn in ("utf8", "to_unicode"):
        try:
            r = getattr(E, fn)(v)
        except TypeError:
            ctx.count("oracle_evals")
            continue
        except Exception as e:
            ctx.violation(f"types/{fn}-raises-{type(e).__name__}-for-{tname}", f"{fn}() raised something other than TypeError",
                          {"value": repr(v), "err": repr(e)})
            continue
        ctx.check(False, f"types/{fn}-accepts-{tname}", f"{fn}() accepted a value that is not str/bytes/None",
                  {"value": repr(v), "result": repr(r)})
    ctx.count("unspecified_none_passthrough")
    E.utf8(None), E.to_unicode(None)
    return True, tname + ":" + (repr(v) if not isinstance(v, (Foreign, memoryview)) and type(v) is not object else "")


def _ref_recursive(o):
    t = type(o)
    if t is bytes:
        return o.decode("utf-8")
    if t is list:
        return [_ref_recursive(i) for i in o]
    if t is tuple:
        return tuple(_ref_recursive(i) for i in o)
    if t is dict:
        return {_ref_recursive(k): _ref_recursive(v) for k, v in o.items()}
    return o


def _count_bytes(o):
    if type(o) is bytes:
        return 1
    if type(o) in (list, tuple):
        return sum(_count_bytes(i) for i in o)
    if type(o) is dict:
        return sum(_count_bytes(k) + _count_bytes(v) for k, v in o.items())
    return 0


def check_recursive(seedv, ctx):
    import random
    rng = random.Random(seedv)
    v, want = gen_struct(rng)
    ctx.count("recursive_evals")
    got = E.recursive_unicode(v)
    ok = _strict_eq(got, want) and _strict_eq(got, _ref_recursive(v))
    ctx.check(ok, "recursive_unicode/result-differs", "recursive_unicode did not convert exactly the bytes leaves",
              {"value": repr(v)[:600], "got": repr(got)[:600], "want": repr(want)[:600]})
    return _count_bytes(v) > 0, repr(v)


def check_qs(seedv, ctx):
    import random
    rng = random.Random(seedv)
    pairs, q, keep_blank, transformed = gen_qs(rng)
    ctx.count("qs_evals")
    want = {}
    for n, v in pairs:
        if v or keep_blank:
            want.setdefault(n.decode("latin-1"), []).append(v)
    for form, arg in (("bytes", q), ("latin1-str", q.decode("latin-1"))):
        wit = {"pairs": pairs, "query": q, "keep_blank_values": keep_blank, "form": form}
        try:
            got = E.parse_qs_bytes(arg, keep_blank_values=keep_blank)
        except Exception as e:
            ctx.violation(f"qs/{form}/raises-{type(e).__name__}", "parse_qs_bytes raised on a well-formed query", dict(wit, err=repr(e)))
            continue
        ok = isinstance(got, dict) and set(got) == set(want) and all(
            isinstance(got[k], list) and len(got[k]) == len(want[k]) and all(type(a) is bytes and a == b for a, b in zip(got[k], want[k]))
            for k in want)
        ctx.check(ok, f"qs/{form}/pairs-differ", "parse_qs_bytes did not return the byte pairs the query was built from",
                  dict(wit, got=repr(got)[:600], want=repr(want)[:600]))
    return transformed, (q, keep_blank)


def run_case(case, ctx):
    kind, val, mode = case
    try:
        if kind == "html":
            nt = check_html(val, mode, ctx)
        elif kind == "url":
            nt = check_url(val, mode, ctx)
        elif kind == "json":
            nt = check_json(val, ctx)
        elif kind == "utf8":
            nt = check_utf8(val, ctx)
        elif kind == "types":
            nt = check_types(mode, ctx)
        elif kind == "recursive":
            nt = check_recursive(mode, ctx)
        else:
            nt = check_qs(mode, ctx)
    except Exception as e:
        ctx.violation(f"{kind}/raises-{type(e).__name__}", f"{kind} helper raised on valid input", {"case": repr(case)[:600], "err": repr(e)})
        return
    if isinstance(nt, tuple):
        nt, canon = nt
        ctx.mark((kind, canon), bool(nt))
    else:
        ctx.mark((kind, repr(val), mode), bool(nt))
    if nt and kind in ("json", "qs"):
        ctx.sample({"kind": kind, "value": repr(val)[:200], "mode": mode}, limit=2)
