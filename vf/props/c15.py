"""C15 — protocol-violating WebSocket peers are cut off without bad data.

A valid session (C14 generator, small messages) gets exactly one violation from the
statement's list inserted at a chosen frame position (between messages or between
the fragments of a message); valid "later" messages follow it.  The generator
knows which messages were complete before the violating frame (the prefix).

Oracle (MUST-REJECT classes): delivered == prefix exactly; peer sees EOF within
the 5 s closing timeout (virtual).  Size limits: a message is MUST-DELIVER iff
its wire payload total <= limit and its decompressed size <= limit, MUST-ABORT
iff either exceeds.  UNSPECIFIED classes are executed, counted and only held to
the safety half (prefix intact, no uncaught-exception log).

Schedules: a third of the sessions run with a *backlog*: the tornado side has queued a large
message the peer does not read while it sends its frames (tornado's write buffer is not empty
when the violating frame arrives), and only afterwards starts reading.  Oversized frames also
come in the "smuggle" form: the bytes following the violating header are well-formed frames.
"""
from __future__ import annotations

import asyncio
import random

from vf import core, vloop
from vf.logmon import LogMon
from vf.props import c14 as base
from vf.refs import ws, ws_rig
from vf.wire import cuts_for

core.use_repo()

PROP = "C15"
META = {
    "level": "exploration",
    "technique": "single-violation insertion into valid frame sequences at every position; delivered messages and "
                 "teardown compared with the generator's known prefix; size-limit boundary pairs (limit, limit+1)",
    "level_text": "Every violation class named by the statement (reserved bits without/with the extension, fragmented and "
                  "oversized control frames, continuation without start, new data frame inside a fragmented message, "
                  "invalid UTF-8 incl. split across fragments and compressed, unknown opcodes, messages above "
                  "max_message_size on the wire, cumulatively over fragments, and after inflation) is inserted at every "
                  "position of generated sessions, against the real server and the real client; boundary messages of "
                  "exactly the limit must be delivered.",
    "level_note": "Trusts the generator's labelling (each violating byte string is re-validated by the independent codec / "
                  "UTF-8 validator). UNSPECIFIED (executed, not gated): RSV1 on control frames with deflate "
                  "negotiated, non-final data frame with a reserved opcode, masking direction, non-minimal lengths, "
                  "1-byte close payloads.",
    "design_ref": "DESIGN.md §4 C15",
    "engine": "wire",
}
RULE = ("a case = role x deflate on/off x max_message_size x valid prefix session (0..4 small messages, fragmented/"
        "compressed) x one violation kind with its parameters x insertion position (between messages or inside a "
        "fragmented message) x later messages x byte segmentation; every case with a violation or a limit-sized "
        "message is non-trivial; distinct by the case description")
FLOORS = {"quick": 1500, "thorough": 40000}
ASSUMPTIONS = ["reference codec and UTF-8 validator are correct", "virtual loop over AF_UNIX",
               "teardown deadline = 5 s closing timeout + 0.5 s virtual"]
REQUIRED_COUNTERS = ["oracle_evals", "must_reject_cases", "must_deliver_cases", "rejected_immediately",
                     "prefix_messages_checked", "backlog_reject_cases", "backlog_deliver_cases",
                     "backlog_output_pending_at_violation", "rsv_on_continuation_cases"]

BAD_UTF8 = [b"\xc0\x80", b"\x80", b"\xe2\x82", b"\xed\xa0\x80", b"\xf4\x90\x80\x80", b"\xff", b"\xc3",
            b"\xe0\x80\x80", b"\xf0\x82\x82\xac", b"\xf8\x88\x80\x80\x80"]
TRUNCATED = {b"\xe2\x82", b"\xc3"}          # only invalid when they end the message
LIMITS = [1, 100, 1000, 65536]

MUST_REJECT = ["rsv", "ctl-frag", "ctl-long", "cont-no-start", "new-in-frag", "bad-utf8", "opcode",
               "too-big"]
UNSPEC = ["u-rsv1-ctl", "u-nonfinal-reserved-opcode", "u-mask-direction", "u-nonminimal-len",
          "u-close-1byte", "u-corrupt-deflate"]


# ---------------------------------------------------------------------------
# generation

def small_msg(rng, deflate, force_frag=False, maxn=200, ctl_ok=True):
    n = rng.choice([x for x in (0, 1, 2, 17, 125, 126, 127) if x <= maxn]) if rng.random() < 0.4 else rng.randint(0, maxn)
    t = rng.choice(["text", "bin"])
    kind = rng.choice(["ascii", "utf8", "comp"] if t == "text" else ["rand", "comp"])
    m = {"t": t, "n": n, "kind": kind, "seed": rng.randrange(1 << 30),
         "z": bool(deflate) and rng.random() < 0.6, "ctl": {}, "after": [], "blocks": 1}
    k = rng.choice([0, 0, 1, 2])
    if force_frag:
        k = max(1, k)
    m["cuts"] = [("f", round(rng.random(), 3)) for _ in range(k)]
    if k and ctl_ok and not m["z"] and rng.random() < 0.3:     # compressed + control-in-gap is C14's subject
        m["ctl"] = {0: [("ping", rng.choice([0, 3]))]}
    return m


def gen_violation(rng, deflate, limit, inside):
    kind = rng.choice(MUST_REJECT if rng.random() < 0.88 else UNSPEC)
    v = {"kind": kind}
    if kind == "rsv":
        v["on"] = rng.choice(["text", "bin", "ping", "pong", "close", "first-fragment", "continuation", "continuation"])
        if v["on"] == "continuation":
            # RFC 6455 5.2: a non-zero RSV bit whose meaning no negotiated extension defines fails the connection;
            # permessage-deflate defines RSV1 for the *first* fragment of a data message only and RFC 7692 6.1 says
            # "MUST NOT set the Per-Message Compressed bit of ... non-first fragments of a data message" - so on a
            # continuation frame every RSV value is a violation, with or without the extension
            v["bits"] = rng.randint(1, 7)
            v["which"] = rng.choice(["last", "last", "middle", "all"])
            v["first_z"] = bool(deflate) and rng.random() < 0.6      # a properly flagged compressed message
            v["t"] = rng.choice(["text", "bin"])
        elif deflate:
            v["bits"] = rng.choice([1, 2, 3, 5, 6, 7])       # RSV2/RSV3 involved
        else:
            v["bits"] = rng.randint(1, 7)
    elif kind == "ctl-frag":
        v["op"] = rng.choice([8, 9, 10])
        v["n"] = rng.choice([0, 2, 50, 125])
    elif kind == "ctl-long":
        v["op"] = rng.choice([8, 9, 10])
        v["n"] = rng.choice([126, 127, 200, 1000])
        v["enc"] = rng.choice([16, 16, 64])
    elif kind == "cont-no-start":
        v["fin"] = rng.random() < 0.5
        v["n"] = rng.choice([0, 5, 126])
    elif kind == "new-in-frag":
        v["op"] = rng.choice([1, 2])
        v["fin"] = rng.random() < 0.5
        v["n"] = rng.choice([0, 5, 126])
    elif kind == "bad-utf8":
        v["bad"] = rng.choice(BAD_UTF8)
        v["where"] = "end" if v["bad"] in TRUNCATED else rng.choice(["start", "middle", "end"])
        v["pad"] = rng.choice([0, 3, 40])
        v["frag"] = rng.choice(["single", "split-inside", "split-before", "three"])
        v["z"] = bool(deflate) and rng.random() < 0.5
    elif kind == "opcode":
        v["op"] = rng.choice([3, 4, 5, 6, 7, 0xB, 0xC, 0xD, 0xE, 0xF])
        v["fin"] = True if v["op"] < 8 else rng.random() < 0.8
        v["n"] = rng.choice([0, 5, 125])
    elif kind == "too-big":
        if limit is None:
            v["form"] = "header-only"
            v["declared"] = rng.choice([10 * 1024 * 1024 + 1, 1 << 32, (1 << 63) - 1, 1 << 63, (1 << 64) - 1])
        else:
            forms = ["single", "fragmented", "header-only", "smuggle", "smuggle"]
            if deflate:
                forms += ["inflated", "inflated", "wire-over-inflated-under"]
            v["form"] = rng.choice(forms)
            v["declared"] = rng.choice([limit + 1, limit + 2, 1 << 63, (1 << 64) - 1])
            v["parts"] = rng.randint(2, 4)
            v["extra"] = rng.choice([1, 1, 2, 50])
        if limit is None and rng.random() < 0.4:
            v["form"] = "smuggle"
        if v["form"] == "smuggle":
            # what follows the header that announces too much is not filler but well-formed frames
            v["inner"] = rng.choice([0, 1, 1, 2, 3])
            v["frag"] = rng.random() < 0.4           # the announcing frame is a continuation crossing the limit
        v["t"] = rng.choice(["text", "bin"])
    elif kind == "u-rsv1-ctl":
        v["op"] = rng.choice([9, 10])
    elif kind == "u-nonfinal-reserved-opcode":
        v["op"] = rng.choice([3, 4, 5, 6, 7])
    elif kind == "u-nonminimal-len":
        v["enc"] = rng.choice([16, 64])
    return v


def gen_backlog(rng):
    """None, or the size of a message the tornado side queues for a peer that is not reading while it sends."""
    if rng.random() < 0.33:
        return rng.choice([40000, 70000, 150000])
    return None


def gen_case(rng, role, tier):
    deflate = rng.random() < 0.5
    limit = rng.choice([None, None] + LIMITS)
    nmsg = rng.randint(0, 4)
    maxn = 200 if limit is None else min(200, limit)
    msgs = [small_msg(rng, deflate, maxn=maxn, ctl_ok=limit is None) for _ in range(nmsg)]
    if rng.random() < 0.2:
        # boundary companion: a message of exactly the limit must be delivered
        lim = limit if limit is not None else 65536
        return {"role": role, "deflate": deflate, "limit": lim, "class": "deliver", "msgs": msgs,
                "at": rng.randint(0, nmsg), "form": rng.choice(["single", "fragmented", "fragmented-ping", "inflated"]
                                                              if deflate else ["single", "fragmented", "fragmented-ping"]),
                "t": rng.choice(["text", "bin"]), "parts": rng.randint(2, 4), "ping": rng.choice([1, 5, 125]),
                "seg": rng.choice(["whole", "random"]), "seed": rng.randrange(1 << 30), "backlog": gen_backlog(rng)}
    pos = rng.randint(0, nmsg)
    inside = False
    if pos < nmsg and rng.random() < 0.45:
        inside = True
        if not msgs[pos]["cuts"]:
            msgs[pos]["cuts"] = [("f", 0.5)]
    v = gen_violation(rng, deflate, limit, inside)
    if v["kind"] == "new-in-frag" and not inside:
        if pos == nmsg:
            msgs.append(small_msg(rng, deflate, force_frag=True, maxn=maxn, ctl_ok=limit is None))
            nmsg += 1
        elif not msgs[pos]["cuts"]:
            msgs[pos]["cuts"] = [("f", 0.5)]
        inside = True
    if v["kind"] in ("cont-no-start", "bad-utf8", "too-big", "u-nonfinal-reserved-opcode"):
        inside = False
    if v["kind"] == "rsv" and v["on"] in ("text", "bin", "first-fragment", "continuation"):
        inside = False
    if v["kind"] == "opcode" and v["op"] < 8:
        pass  # inside a fragmented message it is both a new data frame and an unknown opcode
    later = [{"t": "text", "n": 5, "kind": "ascii", "seed": 99, "z": False, "cuts": [], "ctl": {}, "after": [], "blocks": 1}
             for _ in range(rng.randint(1, 2))]
    return {"role": role, "deflate": deflate, "limit": limit, "class": "unspec" if v["kind"].startswith("u-") else "reject",
            "msgs": msgs, "pos": pos, "inside": inside, "viol": v, "later": later,
            "seg": rng.choice(["whole", "whole", "random", "bytes"]), "seed": rng.randrange(1 << 30),
            "backlog": gen_backlog(rng)}


def shards(tier, seed):
    n = {"quick": 16, "thorough": 64}[tier]
    per = {"quick": 200, "thorough": 2000}[tier]
    return [{"role": "server" if i % 2 == 0 else "client", "n": per, "j": i} for i in range(n)]


def gen_cases(spec):
    rng = core.rng_for(spec["seed"], PROP, spec["j"])
    for _ in range(spec["n"]):
        yield gen_case(rng, spec["role"], spec["tier"])


def directed_cases():
    later = [{"t": "text", "n": 5, "kind": "ascii", "seed": 99, "z": False, "cuts": [], "ctl": {}, "after": [], "blocks": 1}]
    # found by this check: ping payload counted against a fragmented message that is exactly at the limit
    yield {"role": "server", "deflate": False, "limit": 100, "class": "deliver", "msgs": [], "at": 0,
           "form": "fragmented-ping", "t": "bin", "parts": 2, "ping": 5, "seg": "whole", "seed": 3}
    yield {"role": "client", "deflate": False, "limit": 100, "class": "deliver", "msgs": [], "at": 0,
           "form": "fragmented-ping", "t": "text", "parts": 3, "ping": 125, "seg": "whole", "seed": 4}
    yield {"role": "server", "deflate": True, "limit": 100, "class": "deliver", "msgs": [], "at": 0,
           "form": "inflated", "t": "bin", "parts": 2, "ping": 1, "seg": "whole", "seed": 5}
    yield {"role": "server", "deflate": True, "limit": 100, "class": "reject", "msgs": [], "pos": 0, "inside": False,
           "viol": {"kind": "too-big", "form": "inflated", "declared": 101, "parts": 2, "extra": 1, "t": "bin"},
           "later": later, "seg": "whole", "seed": 6}
    yield {"role": "server", "deflate": False, "limit": None, "class": "reject", "msgs": [], "pos": 0, "inside": False,
           "viol": {"kind": "rsv", "bits": 4, "on": "text"}, "later": later, "seg": "whole", "seed": 7}
    # round-3 seeded changes.  C15c: the oversized frame arrives while tornado still has unsent output for a peer
    # that is not reading; the bytes after the violating header are well-formed frames / later messages
    prior = [{"t": "text", "n": 6, "kind": "ascii", "seed": 1, "z": False, "cuts": [], "ctl": {}, "after": [], "blocks": 1}]
    for role in ("server", "client"):
        yield {"role": role, "deflate": False, "limit": 100, "class": "reject", "msgs": prior, "pos": 1, "inside": False,
               "viol": {"kind": "too-big", "form": "smuggle", "declared": 101, "inner": 2, "frag": False, "t": "bin"},
               "later": later, "seg": "whole", "seed": 8, "backlog": 70000}
        yield {"role": role, "deflate": False, "limit": None, "class": "reject", "msgs": prior, "pos": 1, "inside": False,
               "viol": {"kind": "too-big", "form": "smuggle", "declared": 1 << 32, "inner": 0, "frag": True, "t": "text"},
               "later": later, "seg": "random", "seed": 9, "backlog": 150000}
        yield {"role": role, "deflate": True, "limit": 1000, "class": "reject", "msgs": prior, "pos": 1, "inside": False,
               "viol": {"kind": "too-big", "form": "inflated", "declared": 1001, "parts": 2, "extra": 1, "t": "text"},
               "later": later, "seg": "whole", "seed": 10, "backlog": 40000}
        # C15d: RSV1 on a non-first fragment with permessage-deflate negotiated (RFC 7692 6.1), compressed and plain
        yield {"role": role, "deflate": True, "limit": None, "class": "reject", "msgs": prior, "pos": 1, "inside": False,
               "viol": {"kind": "rsv", "bits": 4, "on": "continuation", "which": "all", "first_z": True, "t": "text"},
               "later": later, "seg": "whole", "seed": 11, "backlog": None}
        yield {"role": role, "deflate": True, "limit": None, "class": "reject", "msgs": [], "pos": 0, "inside": False,
               "viol": {"kind": "rsv", "bits": 4, "on": "continuation", "which": "last", "first_z": False, "t": "bin"},
               "later": later, "seg": "bytes", "seed": 12, "backlog": None}


# ---------------------------------------------------------------------------
# frame construction

class Builder:
    def __init__(self, masked, defl, rng, limit=None):
        self.masked, self.defl, self.rng, self.limit = masked, defl, rng, limit
        self.frames = []          # list of bytes
        self.msg_end = []         # frame index (exclusive) at which message i is complete
        self.values = []

    def key(self):
        return self.rng.randbytes(4) if self.masked else None

    def add(self, op, payload=b"", fin=True, rsv=0, **kw):
        if "mask" not in kw:
            kw["mask"] = self.key()
        self.frames.append(ws.build_frame(op, payload, fin=fin, rsv=rsv, **kw))

    def message_frames(self, m, raw=None, force_z=None):
        """Frames (as add() argument tuples) of a valid message."""
        value = base.content(m["t"], m["n"], m["kind"], m["seed"]) if raw is None else raw
        rawb = value.encode("utf-8") if isinstance(value, str) else value
        z = (bool(m.get("z")) if force_z is None else force_z) and self.defl is not None
        if z and self.limit is not None and self.defl.trial_len(rawb) > self.limit:
            z = False          # a *valid* message must stay within the limit on the wire as well
        payload = self.defl.compress(rawb) if z else rawb
        pts = base.realise_cuts(m.get("cuts", []), len(payload))
        bounds = [0] + pts + [len(payload)]
        out = []
        n = len(bounds) - 1
        for i in range(n):
            op = (ws.OP_TEXT if m["t"] == "text" else ws.OP_BIN) if i == 0 else ws.OP_CONT
            out.append((op, payload[bounds[i]:bounds[i + 1]], i == n - 1, ws.RSV1 if (z and i == 0) else 0))
            if i < n - 1:
                for c in m.get("ctl", {}).get(i, []):
                    out.append((ws.OP_PING if c[0] == "ping" else ws.OP_PONG, self.rng.randbytes(c[1]), True, 0))
        return out, value, len(payload)

    def add_message(self, m, stop_after_first_fragment=False):
        fr, value, _ = self.message_frames(m)
        for i, (op, p, fin, rsv) in enumerate(fr):
            self.add(op, p, fin, rsv)
            if stop_after_first_fragment and i == 0:
                return fr[1:], value
        self.values.append(value)
        return [], value


def bad_text(v, rng):
    bad = v["bad"]
    pad = "".join(rng.choice("abcé水 ") for _ in range(v["pad"])).encode()
    if v["where"] == "start":
        raw = bad + pad if bad not in TRUNCATED else pad + bad
    elif v["where"] == "middle":
        raw = pad + bad + pad
    else:
        raw = pad + bad
    if ws.utf8_valid(raw):
        raise RuntimeError("generator bug: 'invalid' UTF-8 sample is valid: %r" % raw)
    try:
        raw.decode("utf-8")
        raise RuntimeError("generator bug: python decodes %r" % raw)
    except UnicodeDecodeError:
        pass
    # offset of the first byte of the bad sequence
    off = raw.index(bad) if bad in raw else 0
    return raw, off


def build_reject(case, b: Builder, limit):
    """Append prefix, violation and later frames. Returns expected prefix values."""
    v = case["viol"]
    kind = v["kind"]
    rng = b.rng
    msgs = case["msgs"]
    pos = case["pos"]
    for m in msgs[:pos]:
        b.add_message(m)
    prefix = list(b.values)
    rest = []
    if case["inside"] and pos < len(msgs):
        rest, _ = b.add_message(msgs[pos], stop_after_first_fragment=True)
    ctl_payload = lambda n: rng.randbytes(n)                      # noqa: E731
    if kind == "rsv":
        on = v["on"]
        bits = v["bits"]
        if on in ("ping", "pong", "close"):
            op = {"ping": 9, "pong": 10, "close": 8}[on]
            b.add(op, b"" if op == 8 else b"rsv", rsv=bits)
        elif on == "first-fragment":
            b.add(1, b"frag", fin=False, rsv=bits)
            b.add(0, b"ment", fin=True)
        elif on == "continuation":
            # an otherwise valid fragmented message (plain, or compressed and properly flagged on its first
            # fragment) whose non-first fragment(s) carry reserved bits
            raw = b"continued-payload" if v["t"] == "bin" else "continued-pay\u00e9".encode()
            z = v["first_z"] and b.defl is not None
            if z and b.limit is not None and b.defl.trial_len(raw) > b.limit:
                z = False
            if b.limit is not None and not z:
                raw = raw[:max(1, b.limit)] if v["t"] == "bin" else raw[:max(1, min(b.limit, 13))]
            payload = b.defl.compress(raw) if z else raw
            n = len(payload)
            c1, c2 = n // 3, (2 * n) // 3
            which = v["which"]
            b.add(1 if v["t"] == "text" else 2, payload[:c1], fin=False, rsv=ws.RSV1 if z else 0)
            b.add(0, payload[c1:c2], fin=False, rsv=bits if which in ("middle", "all") else 0)
            b.add(0, payload[c2:], fin=True, rsv=bits if which in ("last", "all") else 0)
        else:
            b.add(1 if on == "text" else 2, b"reserved", rsv=bits)
    elif kind == "ctl-frag":
        payload = ws.close_payload(1000, b"x" * max(0, v["n"] - 2)) if v["op"] == 8 and v["n"] >= 2 else ctl_payload(v["n"])
        b.add(v["op"], payload, fin=False)
        b.add(0, b"", fin=True)
    elif kind == "ctl-long":
        payload = (ws.close_payload(1000, b"y" * (v["n"] - 2)) if v["op"] == 8 else ctl_payload(v["n"]))
        b.add(v["op"], payload, len_enc=v["enc"])
    elif kind == "cont-no-start":
        b.add(0, b"c" * v["n"], fin=v["fin"])
        if not v["fin"]:
            b.add(0, b"tail", fin=True)
    elif kind == "new-in-frag":
        b.add(v["op"], b"n" * v["n"], fin=v["fin"])
        if not v["fin"]:
            b.add(0, b"tail", fin=True)
    elif kind == "opcode":
        b.add(v["op"], b"o" * v["n"], fin=v["fin"])
        if not v["fin"]:
            b.add(0, b"", fin=True)
    elif kind == "bad-utf8":
        raw, off = bad_text(v, rng)
        z = v["z"] and b.defl is not None
        payload = b.defl.compress(raw) if z else raw
        if z:
            cut1 = len(payload) // 2
        else:
            cut1 = off + (1 if v["frag"] == "split-inside" and len(v["bad"]) > 1 else 0)
        cut1 = max(0, min(len(payload), cut1))
        if v["frag"] == "single":
            b.add(1, payload, rsv=ws.RSV1 if z else 0)
        elif v["frag"] == "three":
            c2 = max(cut1, min(len(payload), cut1 + 1))
            b.add(1, payload[:cut1], fin=False, rsv=ws.RSV1 if z else 0)
            b.add(0, payload[cut1:c2], fin=False)
            b.add(0, payload[c2:], fin=True)
        else:
            b.add(1, payload[:cut1], fin=False, rsv=ws.RSV1 if z else 0)
            b.add(0, payload[cut1:], fin=True)
    elif kind == "too-big":
        op = 1 if v["t"] == "text" else 2
        form = v["form"]
        if form == "smuggle":
            # The header announces more than the limit.  What follows it (where the masking key and the payload of
            # the oversized frame would be) are `inner` well-formed frames, then the rest of the session.
            L = limit if limit is not None else 10 * 1024 * 1024
            declared = max(v["declared"], L + 1)
            first = 0
            if v["frag"]:
                first = max(1, min(3, L))
                b.add(op, b"f" * first, fin=False)
                op = 0
                declared = max(1, min(declared, (1 << 64) - 1) - first)
                if first + declared <= L:
                    raise RuntimeError("generator bug: fragments do not cross the limit")
            enc = 64 if declared > 0xFFFF else (16 if declared > 125 else 7)
            hdr = bytearray(ws.build_frame(op, b"", declared_len=declared, len_enc=enc, fin=(not v["frag"]) or rng.random() < 0.5))
            if b.masked:
                hdr[1] |= 0x80
            b.frames.append(bytes(hdr))
            for i in range(v["inner"]):
                if i % 2 == 0:
                    b.add(1, b"smuggled-%d" % i)
                else:
                    b.add(2, b"\x00smuggled-%d" % i)
        elif form == "header-only":
            enc = 64 if v["declared"] > 0xFFFF else (16 if v["declared"] > 125 else 7)
            b.add(op, b"abc"[:min(3, v["declared"])], declared_len=v["declared"], len_enc=enc)
        elif form == "single":
            b.add(op, b"x" * (limit + v["extra"]))
        elif form == "fragmented":
            total = limit + v["extra"]
            parts = max(2, min(v["parts"], total))
            size = total // parts
            sent = 0
            for i in range(parts):
                n = size if i < parts - 1 else total - sent
                b.add(op if i == 0 else 0, b"x" * n, fin=(i == parts - 1))
                sent += n
        elif form == "inflated":
            raw = b"x" * (limit + v["extra"])
            payload = b.defl.compress(raw)
            if len(payload) > limit:       # limit 1: wire is over the limit as well; still MUST-ABORT
                pass
            b.add(op, payload, rsv=ws.RSV1)
        elif form == "wire-over-inflated-under":
            raw = random.Random(case["seed"]).randbytes(limit)
            if op == 1:
                raw = bytes(48 + (x % 64) for x in raw)
            payload = ws.Deflater(level=0).compress(raw)       # stored blocks: wire > raw
            if len(payload) <= limit:
                raise RuntimeError("generator bug: stored deflate not larger than raw")
            # an independent deflate stream: only sound without context takeover or as first compressed message
            b.add(op, payload, rsv=ws.RSV1)
    elif kind == "u-rsv1-ctl":
        b.add(v["op"], b"u", rsv=ws.RSV1)
    elif kind == "u-rsv1-cont":
        b.add(2, b"ab", fin=False)
        b.add(0, b"cd", fin=True, rsv=ws.RSV1)
    elif kind == "u-nonfinal-reserved-opcode":
        b.add(v["op"], b"ab", fin=False)
        b.add(0, b"cd", fin=True)
    elif kind == "u-mask-direction":
        b.add(1, b"mask", mask=None if b.masked else b"\x11\x22\x33\x44")
    elif kind == "u-nonminimal-len":
        b.add(2, b"nm", len_enc=v["enc"])
    elif kind == "u-close-1byte":
        b.add(8, b"\x03")
    elif kind == "u-corrupt-deflate":
        # RSV1 set (only meaningful with deflate negotiated) on a payload that is not a DEFLATE stream
        b.add(2, b"\xff\xff\xff\xff not deflate", rsv=ws.RSV1 if b.defl is not None else 0)
    else:
        raise RuntimeError("unknown violation kind " + kind)
    # the rest of the interrupted message, the remaining valid messages and the later ones
    for (op, p, fin, rsv) in rest:
        b.add(op, p, fin, rsv)
    b.values = []
    skip = pos + (1 if case["inside"] and pos < len(msgs) else 0)
    for m in msgs[skip:]:
        b.add_message(m)
    for m in case["later"]:
        b.add_message(m)
    return prefix


def build_deliver(case, b: Builder):
    """A message of exactly the limit among valid messages: everything must be delivered."""
    L = case["limit"]
    rng = b.rng
    op = 1 if case["t"] == "text" else 2
    out = []
    for i, m in enumerate(case["msgs"] + [None]):
        if i == case["at"]:
            raw = (b"t" if op == 1 else b"\x00") * L
            form = case["form"]
            if form == "inflated" and b.defl is not None:
                payload = b.defl.compress(raw)
                if len(payload) > L:
                    form = "single"
                else:
                    b.add(op, payload, rsv=ws.RSV1)
            if form == "single":
                b.add(op, raw)
            elif form in ("fragmented", "fragmented-ping"):
                parts = max(2, min(case["parts"], max(2, L)))
                size = max(0, L // parts)
                sent = 0
                for k in range(parts):
                    n = size if k < parts - 1 else L - sent
                    b.add(op if k == 0 else 0, raw[sent:sent + n], fin=(k == parts - 1))
                    sent += n
                    if form == "fragmented-ping" and k < parts - 1:
                        b.add(9, rng.randbytes(min(case["ping"], L)))   # a ping larger than the limit itself: unspecified
            out.append(raw.decode() if op == 1 else raw)
        if m is not None:
            b.add_message(m)
            out.append(b.values[-1])
    return out


# ---------------------------------------------------------------------------
# execution

async def run_session(case, ctx):
    rng = random.Random(case["seed"])
    role = case["role"]
    limit = case["limit"]
    rec = ws_rig.Rec()
    sess = None
    defl = None
    try:
        if role == "server":
            H = ws_rig.make_handler(rec, compression={} if case["deflate"] else None)
            sess = ws_rig.ServerSession(H, settings={"websocket_max_message_size": limit} if limit is not None else None)
            head = await sess.handshake(ws.std_client_headers(
                ws_rig.HOST, ws_rig.KEY, extensions="permessage-deflate" if case["deflate"] else None))
            if head is None or head.status != 101:
                raise RuntimeError("handshake failed: %r" % (head and head.first))
            if case["deflate"]:
                if base.agreed_from(head.get("Sec-WebSocket-Extensions")) is None:
                    raise RuntimeError("deflate not negotiated")
                defl = ws.Deflater()
            peer = sess.peer
        else:
            kw = {"compression_options": {}} if case["deflate"] else {}
            if limit is not None:
                kw["max_message_size"] = limit
            sess = ws_rig.ClientSession(rec, **kw)
            sess.start()
            req = await sess.accept()
            conn = await sess.respond(ws.server_response(
                key=req.get("Sec-WebSocket-Key"), extensions="permessage-deflate" if case["deflate"] else None))
            if conn is None:
                raise RuntimeError("client handshake failed: %r" % sess.error)
            if case["deflate"]:
                defl = ws.Deflater()
            peer = sess.peer
        b = Builder(masked=(role == "server"), defl=defl, rng=rng, limit=limit)
        if case["class"] == "deliver":
            expected = build_deliver(case, b)
        else:
            expected = build_reject(case, b, limit)
        data = b"".join(b.frames)
        seg = case["seg"] if len(data) <= 400 or case["seg"] != "bytes" else "random"
        backlog = case.get("backlog")
        pending = None
        if backlog:
            # The tornado side queues a large message; the peer does not read while it sends its own frames, so
            # tornado's write buffer is non-empty when the frames (and the violating one) arrive.
            import socket as _socket
            tstream = sess.stream if role == "server" else sess.conn.protocol.stream
            tstream.socket.setsockopt(_socket.SOL_SOCKET, _socket.SO_SNDBUF, 4096)
            blob = random.Random(case["seed"] ^ 0x5A5A).randbytes(backlog)      # incompressible
            writer = rec.handler if role == "server" else sess.conn
            fut = writer.write_message(blob, binary=True)
            fut.add_done_callback(lambda f: f.cancelled() or f.exception())   # the harness owns this future
            await vloop.settle(2)
            queued = bool(tstream.writing())
            pos = 0
            for n in cuts_for(rng, len(data), seg):
                if peer.send_error is not None:
                    break
                seg_bytes = data[pos:pos + n]
                pos += n
                spins = 0
                while seg_bytes and spins < 10000:
                    try:
                        k = peer.sock.send(seg_bytes)
                        seg_bytes = seg_bytes[k:]
                    except BlockingIOError:
                        spins += 1
                    except OSError as e:        # tornado already closed: nothing more can be sent
                        peer.send_error = e
                        break
                    await vloop.settle()
                await vloop.settle()
            await vloop.settle(2)
            # observation points while the peer has still not read anything
            pending = {"queued": queued, "writing": bool(not tstream.closed() and tstream.writing()),
                       "closed": tstream.closed(), "delivered": len(rec.messages())}
            # now the peer reads everything tornado has for it
            await ws_rig.pump_until_idle(peer, 400)
        else:
            await peer.send(data, cuts_for(rng, len(data), seg))
        await peer.drain(2)
        immediate = peer.eof
        if not immediate:
            await asyncio.sleep(5.5)
            await peer.drain(2)
        got = rec.messages()
        frames = sess.frames()
        return {"expected": expected, "got": got, "immediate": immediate, "eof": peer.eof, "pending": pending,
                "frames": [f.brief() for f in frames][:6],
                "close_sent": [f.payload[:2] for f in frames if f.opcode == 8],
                "closes": rec.count("close") + rec.count("close_msg")}
    finally:
        if sess is not None:
            await sess.close()


def _short(v):
    return base._short(v)


def run_case(case, ctx):
    with LogMon() as lm:
        r = vloop.run(run_session, case, ctx)
    cls = case["class"]
    exp, got = r["expected"], r["got"]
    kind = case["viol"]["kind"] if cls != "deliver" else "at-limit/" + case["form"]
    sub = ""
    if cls == "reject":
        v = case["viol"]
        if v["kind"] == "too-big":
            sub = "/" + v["form"]
        elif v["kind"] == "rsv":
            sub = "/" + ("control" if v["on"] in ("ping", "pong", "close") else
                         "continuation" if v["on"] == "continuation" else "data") + ("+deflate" if case["deflate"] else "")
            if v["on"] == "continuation":
                ctx.count("rsv_on_continuation_cases")
        elif v["kind"] == "bad-utf8":
            sub = "/" + ("fragmented" if v["frag"] != "single" else "single") + ("+deflate" if v["z"] and case["deflate"] else "")
        elif v["kind"] == "opcode":
            sub = "/control" if v["op"] >= 8 else "/data"
    wit = {"role": case["role"], "deflate": case["deflate"], "limit": case["limit"],
           "viol": case.get("viol"), "pos": case.get("pos"), "inside": case.get("inside"),
           "backlog": case.get("backlog"), "pending": r.get("pending"),
           "expected_n": len(exp), "got_n": len(got), "eof": r["eof"], "immediate": r["immediate"],
           "tornado_frames": r["frames"], "got_tail": [_short(x) for x in got[len(exp):][:3]]}
    npre = len(exp)
    prefix_ok = len(got) >= npre and all(type(a) is type(b_) and a == b_ for a, b_ in zip(got, exp))
    ctx.count("prefix_messages_checked", npre)
    if r.get("pending") is not None:
        ctx.count("backlog_deliver_cases" if cls == "deliver" else "backlog_reject_cases" if cls == "reject"
                  else "backlog_unspec_cases")
        if r["pending"]["queued"] and (r["pending"]["writing"] or r["pending"]["closed"]):
            # the queued message was really still (partly) unsent when the peer's frames had been processed
            ctx.count("backlog_output_pending_at_violation")
    if cls == "deliver":
        ctx.count("must_deliver_cases")
        ctx.check(prefix_ok and len(got) == npre and not r["eof"] and not r["close_sent"],
                  "must-deliver-rejected/" + kind,
                  "a legal session containing a message of exactly max_message_size was not delivered completely / was aborted",
                  wit)
    elif cls == "reject":
        ctx.count("must_reject_cases")
        ctx.seen("violation_kinds", kind + sub)
        ctx.check(prefix_ok, "prefix-damaged/" + kind + sub,
                  "a message completed before the violating frame is missing or altered", wit)
        if prefix_ok:
            ctx.check(len(got) == npre, "delivered-after-violation/" + kind + sub,
                      "a message derived from the violating frame or a later frame was delivered", wit)
        ctx.check(r["eof"], "not-aborted/" + kind + sub,
                  "connection still open 5.5 virtual seconds after the violating frame", wit)
        if r["immediate"]:
            ctx.count("rejected_immediately")
    else:
        ctx.count("unspecified_cases")
        ctx.count("unspecified_rejected" if r["eof"] else "unspecified_accepted")
        ctx.seen("unspecified_kinds", kind + ("/rejected" if r["eof"] else "/accepted"))
        ctx.check(prefix_ok, "prefix-damaged/" + kind,
                  "a message completed before the (unspecified-class) frame is missing or altered", wit)
    bad = lm.uncaught()
    if bad and any("decompressing" in (r.get("exc_text") or "") for r in bad):
        # one root cause whatever the frame that carried the bytes: zlib.error escapes the frame loop
        ctx.check(False, "log/uncaught-zlib-error-from-inflate",
                  "a payload that is not valid DEFLATE data raised an uncaught zlib.error: traceback logged, frame loop "
                  "dead, connection left open and no close notification", {"records": bad[:2], **wit})
    else:
        ctx.check(not bad, "log/uncaught-exception/" + kind + sub,
                  "the frame sequence produced an uncaught-exception log record", {"records": bad[:2], **wit})
    ctx.mark(case, True)
    if cls != "unspec":
        ctx.sample({"role": case["role"], "class": cls, "kind": kind + sub, "pos": case.get("pos"),
                    "inside": case.get("inside"), "limit": case["limit"]}, limit=6)
