"""C38 — IOLoop callbacks and timeouts run once, in order, survive errors.

Three workloads on the real IOLoop (AsyncIOLoop over asyncio):

"prog"   (virtual loop) bounded programs of add_callback / spawn_callback /
         add_timeout(abs|timedelta) / call_later / call_at / remove_timeout /
         add_future, with nested scheduling from inside callbacks, raising
         callbacks, callbacks returning failing futures / coroutines.  Every
         scheduled unit has a unique id; the execution log is checked against
         the program (exactly once, FIFO, deadline order, not before deadline,
         never after removal, errors logged, later callbacks still run,
         add_future callbacks never inline).
"sync"   (virtual loop) run_sync with result / exception / timeout.
"thr"    (REAL loop, REAL threads, yield injection in add_callback) several
         threads + the loop thread itself call add_callback concurrently; each
         callback runs exactly once on the loop thread, per-thread order kept.
         A producer thread is either a plain thread or one that RUNS ITS OWN
         event loop (asyncio.run coroutine / call_soon callback chain of a
         second asyncio loop / a second tornado IOLoop) and calls the target's
         add_callback from inside that loop's coroutine or callback ("any
         other thread" includes threads in which some other loop is running).
         The target loop may have a HISTORY before it is finally started on its
         loop thread: the same IOLoop object was run earlier (run_sync, or
         start()+stop()) on other threads - a thread that later acts as producer,
         a thread that has since exited, or the final loop thread itself - so
         "the loop thread" is the thread that runs the loop NOW, whatever thread
         ran it before.
         No verdict is taken from elapsed time: a lost wake-up is reported only
         with a structural stuck-state witness (all producers joined, loop
         thread parked in select with timeout None, loop._ready non-empty,
         self-pipe empty, stable over 3 samples without progress); a watchdog
         expiry without that witness makes the shard INCONCLUSIVE.
"""
from __future__ import annotations

import asyncio
import concurrent.futures
import datetime
import math
import queue
import socket
import threading
import time

from vf import core, shake, vloop
from vf.logmon import LogMon

core.use_repo()
from tornado import gen  # noqa: E402
from tornado.ioloop import IOLoop  # noqa: E402

PROP = "C38"
META = {
    "level": "exploration",
    "technique": "execution-log monitor vs the scheduling program on a virtual clock; real-thread add_callback under sys.monitoring yield injection with structural stuck-state witness",
    "level_text": "Generated scheduling programs (<=12 units, nested, with removals, raising callbacks, failing futures, add_future, "
                  "all four deadline forms) run on the real IOLoop over a virtual-time asyncio loop; the execution log is checked for "
                  "exactly-once, FIFO callbacks, deadline order, not-before-deadline (4 ulp of the epoch-scale clock), "
                  "never-after-remove, error logging without loop stop, add_future never inline; run_sync result/exception/"
                  "TimeoutError+cancellation. add_callback from 2-8 real threads plus the loop thread under yield injection: "
                  "exactly once, per-thread order, on the loop thread, no lost wake-up. Producer threads are plain threads or "
                  "threads that run an event loop of their own (asyncio.run coroutine, call_soon chain of a second asyncio loop, "
                  "a second tornado IOLoop started or under run_sync) and call the target's add_callback from inside that loop's "
                  "coroutine/callback, all-own-loop, mixed, or own-loop producers last, while the target loop is observed idle "
                  "in its selector, racing, or not yet started. Loop migration: the same IOLoop is first run (run_sync / "
                  "start+stop) on up to 3 other threads (a later producer, a retired thread, the final loop thread) before it is "
                  "started on its loop thread; the former runner threads then call add_callback while the loop idles.",
    "level_note": "Interleavings of the threaded part are sampled (distinct executed-thread-sequences are counted in evidence). "
                  "A deadline already past when the scheduling call is made is read as 'due at the call': a pair of timeouts is gated "
                  "when written and effective (max(deadline, time of the call)) deadlines order it the same way by > 8 ulp; pairs "
                  "the two readings order differently and ties within 8 ulp are unspecified. "
                  "Which logger carries the error record is not pinned by the statement (tornado.application or asyncio accepted).",
    "design_ref": "DESIGN.md §4 C38",
    "engine": "vloop+shake",
}
RULE = ("prog: random trees of <=12 scheduling units over {add_callback, spawn_callback, add_timeout abs/timedelta, call_later, "
        "call_at, remove_timeout, add_future(done|pending|concurrent), sleep, busy (slow callback: the virtual clock advances "
        "inside a callback / the main step so pending deadlines pass)}, deadlines relative to now (incl. negative, "
        "several magnitudes) or anchored at the program start (past by the time of the call); non-trivial if it has >=2 timeouts with distinct "
        "deadlines or a removal or an error-raising unit, and >=4 units; sync: run_sync (function kind x outcome x timeout); "
        "thr: (threads, callbacks per thread, start phase, per-thread producer flavour plain|aio_coro|aio_cb|ioloop|ioloop_sync, "
        "yield chunk, own-loop-producers-last, prior runs of the same loop on other threads [(P<i>|X|L, run_sync|start_stop)], "
        "former-runner-producers-last, shake seed), non-trivial if >=2 producer threads; distinct by case tuple")
FLOORS = {"quick": 1500, "thorough": 60000}
ASSUMPTIONS = [
    "virtual loop only for the single-threaded programs; threaded part on a real selector loop",
    "tolerance 4 ulp(1.7e9) for not-before-deadline (absolute->relative->absolute conversion costs <= 2 roundings)",
    "a stuck loop is reported only with the structural witness; otherwise the run is inconclusive",
]
REQUIRED_COUNTERS = ["oracle_evals", "prog_units_run", "timeouts_run", "removed_before_run", "error_units_logged",
                     "add_future_callbacks", "deadline_order_pairs", "deadline_order_pairs_past_when_scheduled",
                     "deadline_order_pairs_late_added_to_overdue_pending", "busy_steps", "run_sync_evals", "run_sync_timeouts",
                     "thr_runs", "thr_callbacks", "thr_parked_starts", "thr_own_loop_producer_runs",
                     "thr_parked_own_loop_starts", "thr_migrated_loop_runs", "thr_migrated_prior_runs",
                     "thr_parked_former_runner_producer_runs"]
SHARD_TIMEOUT = {"quick": 200, "thorough": 3000}

TOL = 4 * math.ulp(vloop.EPOCH)


def shards(tier, seed):
    out = []
    q = tier == "quick"
    for j in range(6 if q else 24):
        out.append({"kind": "prog", "n": 900 if q else 12500, "j": j})
    for j in range(2 if q else 4):
        out.append({"kind": "sync", "n": 150 if q else 2000, "j": j})
    for j in range(8 if q else 16):
        out.append({"kind": "thr", "n": 5 if q else 30, "j": j, "maxm": 600 if q else 5000})
    return out


# ---------------------------------------------------------------------------
# generators

FORMS = ["abs", "td", "later", "at"]
DELAYS = [0.0, 0.001, 0.001, 0.002, 0.005, 0.01, 0.01, 0.05, 0.1, 0.25, 1.0, 3.0, -0.5, 60.0,
          -0.001, -0.004, -0.03, -0.15, -2.0]
# deadlines anchored at the program's start time T0 (absolute appointments: they can be in the past, by any amount,
# when the scheduling call is finally made after slow callbacks)
ANCHORED = [0.0, 0.001, 0.002, 0.005, 0.01, 0.02, 0.05, 0.1, 0.25, 0.3, 1.0, 3.0]
# ("busy", x): the running callback (or the main task step) is slow: the loop's clock advances by x while the loop
# does not get control, so deadlines of pending timeouts pass while they are still pending
BUSY = [0.0005, 0.002, 0.004, 0.02, 0.06, 0.12, 0.3, 0.3, 1.5, 4.0]
RETS = [None, None, None, "failfut", "coro_raise", "coro_ok", "junk", "okfut"]


def gen_prog(rng):
    budget = [rng.randint(3, 12)]
    nid = [0]
    timeouts = []

    def beh(depth):
        b = {"raise": rng.random() < 0.15, "ret": rng.choice(RETS), "nested": []}
        if b["raise"]:
            b["ret"] = None
        if depth < 2 and budget[0] > 0 and rng.random() < 0.4:
            b["nested"] = ops(depth + 1, rng.randint(1, 3))
        return b

    def ops(depth, n):
        out = []
        for _ in range(n):
            if budget[0] <= 0:
                break
            budget[0] -= 1
            r = rng.random()
            if r < 0.2:
                nid[0] += 1
                out.append(("cb" if rng.random() < 0.7 else "spawn", nid[0], beh(depth)))
            elif r < 0.6:
                nid[0] += 1
                timeouts.append(nid[0])
                if rng.random() < 0.3:
                    out.append(("to", nid[0], rng.choice(FORMS), rng.choice(ANCHORED), beh(depth), "t0"))
                else:
                    out.append(("to", nid[0], rng.choice(FORMS), rng.choice(DELAYS), beh(depth)))
            elif r < 0.74 and timeouts:
                out.append(("rm", rng.choice(timeouts)))
                if rng.random() < 0.3:
                    out.append(("rm", out[-1][1]))
            elif r < 0.86:
                nid[0] += 1
                out.append(("fut", nid[0], rng.choice(["done", "done_exc", "pending", "cdone", "cpending"]),
                            rng.choice([0.001, 0.01, 0.1]), beh(depth)))
            elif r < 0.96:
                budget[0] += 1          # a busy step is not a scheduling unit
                out.append(("busy", rng.choice(BUSY)))
            elif depth == 0:
                out.append(("sleep", rng.choice([0.0, 0.001, 0.003, 0.01, 0.2, 2.0])))
            else:
                budget[0] += 1
        return out

    top = ops(0, budget[0])
    return {"k": "prog", "ops": top}


def gen_sync(rng):
    kind = rng.choice(["sync_none", "sync_raise", "sync_value", "coro_value", "coro_raise", "gen_value", "gen_raise",
                       "future_value", "future_exc", "coro_value", "coro_raise"])
    dur = rng.choice([0.0, 0.01, 0.5, 2.0])
    timeout = rng.choice([None, None, 0, 0.0, 0.1, 1.0, 5.0])
    if timeout is not None and abs(timeout - dur) < 1e-3:
        timeout = timeout * 3
    return {"k": "sync", "kind": kind, "dur": dur, "timeout": timeout, "pre_raiser": rng.random() < 0.3,
            "again": rng.random() < 0.5}


# what the producer thread is doing when it calls the target loop's add_callback:
#  plain     ordinary thread, no event loop
#  aio_coro  inside a coroutine driven by asyncio.run() in that thread (yields to its own loop every `chunk` calls)
#  aio_cb    inside a call_soon callback chain of an asyncio loop run with run_forever() in that thread
#  ioloop    inside an add_callback callback chain of a second tornado IOLoop started in that thread
#  ioloop_sync  inside a coroutine driven by a second tornado IOLoop's run_sync in that thread
OWN_LOOP_FLAVORS = ["aio_coro", "aio_cb", "ioloop", "ioloop_sync"]
FLAVORS = ["plain"] + OWN_LOOP_FLAVORS
# how a thread ran the target loop earlier in its history
PRE_HOWS = ["run_sync", "start_stop"]


def gen_thr(rng, maxm):
    T = rng.randint(2, 8)
    case = {"k": "thr", "T": T, "M": rng.choice([100, 150, 300, maxm // 2, maxm]),
            "phase": rng.choice(["parked", "parked", "racing", "before"]),
            "loop_producer": rng.random() < 0.5,
            "p_yield": rng.choice([0.1, 0.3, 0.5]), "p_sleep": rng.choice([0.005, 0.02, 0.05]),
            "sseed": rng.randrange(1 << 30)}
    mode = rng.choice(["plain", "plain", "own", "own", "mixed", "mixed_last_own"])
    if mode == "plain":
        fl = ["plain"] * T
    elif mode == "own":
        # every producer runs a loop of its own (one flavour, or one per thread)
        one = rng.choice(OWN_LOOP_FLAVORS + [None])
        fl = [one or rng.choice(OWN_LOOP_FLAVORS) for _ in range(T)]
    else:
        fl = [rng.choice(FLAVORS) for _ in range(T)]
    case["flavors"] = fl
    case["chunk"] = rng.choice([1, 7, 50, 1000000])
    # mixed_last_own: the plain producers are joined before the own-loop ones start (the last calls made to the
    # idle loop come from threads that run another loop)
    case["own_last"] = mode == "mixed_last_own"
    # history of the loop object before its final start on the loop thread: it was run before (run_sync or start+stop)
    # on a thread that later produces ("P<i>"), on a thread that has exited since ("X": its ident may be reused by a
    # thread started later), or on the final loop thread itself ("L")
    pre = []
    if rng.random() < 0.45:
        for _ in range(rng.choice([1, 1, 2, 3])):
            who = rng.choice(["P", "P", "P", "X", "L"])
            if who == "P":
                who = "P%d" % rng.randrange(T)
            pre.append((who, rng.choice(PRE_HOWS)))
    case["prehist"] = pre
    # the producers that ran the loop before start after all others have joined (their calls are the last ones)
    case["pre_last"] = bool(pre) and rng.random() < 0.5
    return case


def gen_cases(spec):
    rng = core.rng_for(spec["seed"], PROP, f"{spec['kind']}{spec['j']}")
    for _ in range(spec["n"]):
        if spec["kind"] == "prog":
            yield gen_prog(rng)
        elif spec["kind"] == "sync":
            yield gen_sync(rng)
        else:
            yield gen_thr(rng, spec["maxm"])


def directed_cases():
    B = {"raise": False, "ret": None, "nested": []}
    R = {"raise": True, "ret": None, "nested": []}
    yield {"k": "prog", "ops": [("to", 1, "later", 0.01, R), ("to", 2, "td", 0.02, B), ("to", 3, "abs", 0.005, B),
                                ("rm", 2), ("rm", 2), ("cb", 4, {"raise": False, "ret": "failfut", "nested": []}),
                                ("cb", 5, B), ("fut", 6, "done", 0.001, B), ("sleep", 0.2), ("rm", 1)]}
    # slow callbacks: A pending, the clock passes A's deadline inside a callback, B (later deadline, also past) added;
    # once from a loop callback, once from a timeout callback, once from the main task step, every deadline form
    yield {"k": "prog", "ops": [("cb", 1, {"raise": False, "ret": None, "nested": [
        ("to", 2, "abs", 0.05, B), ("busy", 0.25), ("to", 3, "abs", 0.1, B, "t0"), ("to", 4, "later", -0.1, B),
        ("to", 5, "at", 0.3, B)]}), ("sleep", 0.2)]}
    yield {"k": "prog", "ops": [("to", 1, "later", 0.01, {"raise": False, "ret": None, "nested": [
        ("to", 2, "td", 0.002, B), ("to", 3, "at", 0.004, R), ("busy", 0.02), ("to", 4, "td", -0.015, B),
        ("to", 5, "later", -0.001, B), ("cb", 6, B)]}), ("sleep", 1.0)]}
    yield {"k": "prog", "ops": [("to", 1, "at", 0.005, B), ("to", 2, "td", 0.02, B), ("busy", 0.06),
                                ("to", 3, "abs", 0.01, B, "t0"), ("to", 4, "later", 0.03, B, "t0"), ("cb", 5, B),
                                ("sleep", 0.0)]}
    # target loop idle in its selector; every call comes from a thread that runs another event loop
    for i, fl in enumerate(OWN_LOOP_FLAVORS):
        yield {"k": "thr", "T": 2, "M": 40, "phase": "parked", "loop_producer": False, "p_yield": 0.1, "p_sleep": 0.005,
               "sseed": 11 + i, "flavors": [fl, fl], "chunk": [1, 7, 50, 1000000][i], "own_last": False}
    yield {"k": "thr", "T": 3, "M": 40, "phase": "parked", "loop_producer": False, "p_yield": 0.1, "p_sleep": 0.005,
           "sseed": 17, "flavors": ["plain", "aio_coro", "ioloop"], "chunk": 7, "own_last": True}
    # loop migration: the loop was run before on the thread that now produces / on a retired thread / on the loop
    # thread itself; it idles in its selector on the loop thread when the former runner calls add_callback
    base = {"k": "thr", "M": 40, "phase": "parked", "loop_producer": False, "p_yield": 0.1, "p_sleep": 0.005,
            "chunk": 7, "own_last": False}
    yield dict(base, T=2, sseed=21, flavors=["plain", "plain"], prehist=[("P0", "run_sync")], pre_last=True)
    yield dict(base, T=2, sseed=22, flavors=["plain", "plain"], prehist=[("P1", "start_stop")], pre_last=True)
    yield dict(base, T=2, sseed=23, flavors=["plain", "plain"], prehist=[("P0", "run_sync"), ("P1", "run_sync")],
               pre_last=False)
    yield dict(base, T=3, sseed=24, flavors=["plain", "aio_coro", "ioloop"],
               prehist=[("X", "run_sync"), ("P2", "start_stop"), ("L", "run_sync")], pre_last=True)
    yield dict(base, T=2, sseed=25, flavors=["plain", "plain"], prehist=[("P1", "run_sync"), ("P0", "start_stop")],
               pre_last=True, phase="racing", loop_producer=True)
    yield dict(base, T=2, sseed=26, flavors=["plain", "plain"], prehist=[("L", "start_stop"), ("P0", "run_sync")],
               pre_last=False, phase="before")
    yield {"k": "sync", "kind": "coro_value", "dur": 2.0, "timeout": 0.1, "pre_raiser": True, "again": True}
    # zero timeout is a timeout (boundary: `if timeout:` vs `if timeout is not None:`)
    yield {"k": "sync", "kind": "coro_value", "dur": 0.4, "timeout": 0, "pre_raiser": False, "again": True}
    yield {"k": "sync", "kind": "future_value", "dur": 0.4, "timeout": 0.0, "pre_raiser": False, "again": False}


# ---------------------------------------------------------------------------
# (a) programs on the virtual loop

class Boom(Exception):
    pass


def _sum_delays(ops):
    s = 0.0
    for op in ops:
        if op[0] == "to":
            s += abs(op[3]) + _sum_delays(op[4]["nested"])
        elif op[0] == "fut":
            s += op[3] + _sum_delays(op[4]["nested"])
        elif op[0] in ("cb", "spawn"):
            s += _sum_delays(op[2]["nested"])
        elif op[0] in ("sleep", "busy"):
            s += op[1]
    return s


def _count_units(ops):
    n = 0
    for op in ops:
        if op[0] in ("cb", "spawn"):
            n += 1 + _count_units(op[2]["nested"])
        elif op[0] in ("to", "fut"):
            n += 1 + _count_units(op[4]["nested"])
    return n


def run_prog(case, ctx):
    S = {"seq": 0, "sched": {}, "runs": {}, "removed": {}, "handles": {}, "order_cb": [], "errs": set(),
         "keep": [], "fut_inline": []}

    def tick():
        S["seq"] += 1
        return S["seq"]

    async def main(lm):
        io = IOLoop.current()
        vl = io.asyncio_loop
        lm.attach_loop(vl)

        def make_fn(uid, beh, kind):
            def fn(*args):
                S["runs"].setdefault(uid, []).append((tick(), io.time(), threading.get_ident()))
                ctx.count("prog_units_run")
                if kind == "fut":
                    # the flag is set right after add_future (resp. the resolving call) returned
                    if not S["sched"][uid].get("armed"):
                        S["fut_inline"].append(uid)
                do_ops(beh["nested"])
                if beh["raise"]:
                    S["errs"].add(uid)
                    raise Boom(f"boom-{uid}")
                r = beh["ret"]
                if r == "failfut":
                    S["errs"].add(uid)
                    f = asyncio.Future()
                    f.set_exception(Boom(f"boom-{uid}"))
                    S["keep"].append(f)
                    return f
                if r == "okfut":
                    f = asyncio.Future()
                    f.set_result(uid)
                    return f
                if r == "coro_raise":
                    S["errs"].add(uid)

                    async def c():
                        await asyncio.sleep(0.0005)
                        raise Boom(f"boom-{uid}")
                    return c()
                if r == "coro_ok":
                    async def c2():
                        await asyncio.sleep(0)
                        return uid
                    return c2()
                if r == "junk":
                    return ("not", "yieldable", uid)
                return None
            return fn

        def do_ops(ops):
            for op in ops:
                k = op[0]
                if k in ("cb", "spawn"):
                    _, uid, beh = op
                    S["sched"][uid] = {"kind": "cb", "seq": tick()}
                    S["order_cb"].append(uid)
                    (io.add_callback if k == "cb" else io.spawn_callback)(make_fn(uid, beh, "cb"))
                elif k == "busy":
                    # a slow callback: the loop's clock moves on while the loop does not get control
                    vl.advance_to(vl.time() + op[1])
                    ctx.count("busy_steps")
                elif k == "to":
                    _, uid, form, d, beh = op[:5]
                    now = io.time()
                    if len(op) > 5 and op[5] == "t0":
                        d = (S["t0"] + d) - now         # appointment relative to the program's start
                    fn = make_fn(uid, beh, "to")
                    if form == "abs":
                        D = now + d
                        h = io.add_timeout(D, fn)
                    elif form == "at":
                        D = now + d
                        h = io.call_at(D, fn)
                    elif form == "later":
                        D = now + d
                        h = io.call_later(d, fn)
                    else:
                        td = datetime.timedelta(seconds=d)
                        D = now + td.total_seconds()
                        h = io.add_timeout(td, fn)
                    S["sched"][uid] = {"kind": "to", "seq": tick(), "D": D, "now": now, "d": d, "form": form}
                    S["handles"][uid] = h
                elif k == "rm":
                    uid = op[1]
                    h = S["handles"].get(uid)
                    if h is None:
                        ctx.count("rm_of_unscheduled_skipped")
                        continue
                    try:
                        io.remove_timeout(h)
                    except Exception as e:
                        ctx.violation("prog/remove_timeout-raises", "remove_timeout raised",
                                      {"err": repr(e), "already_run": uid in S["runs"],
                                       "already_removed": uid in S["removed"]})
                    S["removed"].setdefault(uid, tick())
                elif k == "fut":
                    _, uid, mode, d, beh = op
                    fn = make_fn(uid, beh, "fut")
                    rec = S["sched"][uid] = {"kind": "fut", "seq": tick(), "mode": mode, "armed": False}
                    ctx.count("add_future_callbacks")
                    if mode in ("done", "done_exc"):
                        f = asyncio.Future()
                        if mode == "done":
                            f.set_result(uid)
                        else:
                            f.set_exception(Boom(f"input-{uid}"))
                            f.exception()      # retrieved: no 'never retrieved' noise
                        io.add_future(f, fn)
                        rec["armed"] = True
                    elif mode == "cdone":
                        f = concurrent.futures.Future()
                        f.set_result(uid)
                        io.add_future(f, fn)
                        rec["armed"] = True
                    else:
                        f = asyncio.Future() if mode == "pending" else concurrent.futures.Future()
                        io.add_future(f, fn)

                        def resolve(f=f, rec=rec):
                            f.set_result(1)
                            rec["armed"] = True     # set right after the resolving call returned
                        vl.call_later(d, resolve)
                    S["keep"].append(f)

        S["t0"] = io.time()
        for op in case["ops"]:
            if op[0] == "sleep":
                await asyncio.sleep(op[1])
            else:
                do_ops([op])
        await asyncio.sleep(_sum_delays(case["ops"]) + 5.0)
        await vloop.settle(3)
        # error logging is judged while every returned future is still referenced (no GC-time reports)
        logged = set()
        for r in lm.records:
            if r["level"] in ("ERROR", "CRITICAL") and r.get("exc_text") and "boom-" in r["exc_text"]:
                try:
                    logged.add(int(r["exc_text"].split("boom-")[1].split("'")[0].split('"')[0].rstrip(")")))
                except ValueError:
                    pass
        return logged

    with LogMon() as lm:
        try:
            logged = vloop.run(main, lm)
            stopped = None
        except vloop.Quiescent:
            ctx.violation("prog/loop-went-idle-with-program-pending", "virtual loop quiescent before the program finished",
                          {"runs": len(S["runs"])})
            return
        except BaseException as e:
            ctx.violation(f"prog/loop-stopped-by-{type(e).__name__}",
                          "an exception escaped the loop (raising callbacks must be logged without stopping it)",
                          {"err": repr(e)[:300]})
            return
        other = [r for r in lm.uncaught() if "boom-" not in (r["exc_text"] or "") and "boom-" not in r["msg"]]
        ctx.check(not other, "prog/unexpected-error-log", "an error unrelated to the program's raising units was logged",
                  {"records": other[:3]})

    # ---- oracle over the execution log
    sched, runs, removed = S["sched"], S["runs"], S["removed"]
    for uid, rec in sched.items():
        r = runs.get(uid, [])
        if rec["kind"] == "to" and uid in removed:
            if not r or removed[uid] < r[0][0]:
                ctx.count("removed_before_run")
                after = [x for x in r if x[0] > removed[uid]]
                ctx.check(not after, "prog/timeout-ran-after-remove_timeout",
                          "a timeout callback ran after remove_timeout(handle) returned",
                          {"unit": uid, "form": rec["form"], "delay": rec["d"]})
                continue
            ctx.count("removed_after_run")
        ctx.check(len(r) == 1, "prog/unit-ran-%s" % ("twice" if len(r) > 1 else "never"),
                  "a scheduled callback/timeout did not run exactly once by the end of the program",
                  {"unit": uid, "kind": rec["kind"], "runs": len(r), "rec": {k: v for k, v in rec.items() if k != "armed"}})
        if rec["kind"] == "to" and r:
            ctx.count("timeouts_run")
            ctx.check(r[0][1] >= rec["D"] - TOL, "prog/timeout-ran-before-deadline",
                      "timeout ran while io_loop.time() was still before its deadline",
                      {"unit": uid, "form": rec["form"], "deadline": rec["D"], "ran_at": r[0][1],
                       "early_by": rec["D"] - r[0][1]})
    # FIFO of add_callback / spawn_callback (single scheduling thread)
    ran_cb = sorted((runs[u][0][0], u) for u in S["order_cb"] if u in runs)
    ctx.check([u for _, u in ran_cb] == [u for u in S["order_cb"] if u in runs], "prog/add_callback-order-not-fifo",
              "callbacks added with add_callback did not run in scheduling order",
              {"scheduled": S["order_cb"], "ran": [u for _, u in ran_cb]})
    # deadline order.  "Not before their deadline ... in deadline order": of two timeouts that are both pending, the
    # one with the earlier deadline runs first.  A deadline that is already past when the scheduling call is made
    # cannot be honoured as written: the timeout is due at the moment of the call, so its *effective* deadline is
    # max(deadline, io_loop.time() at the call).  A pair is gated when the written AND the effective deadlines order
    # it the same way by more than the rounding tolerance (this includes: A pending, a slow callback lets the clock
    # pass A's deadline, B is then added with a later deadline that is also already past -> A first).  Pairs the
    # two readings order differently (B added with a past deadline *earlier* than that of a still pending overdue A),
    # and ties within tolerance under either reading, stay unspecified.
    tos = [(u, rec) for u, rec in sched.items() if rec["kind"] == "to" and u in runs
           and not (u in removed and removed[u] < runs[u][0][0])]
    for u, rec in tos:
        rec["E"] = max(rec["D"], rec["now"])
    for i, (u, ru) in enumerate(tos):
        for v, rv in tos[i + 1:]:
            a, b = (u, ru), (v, rv)
            if a[1]["D"] > b[1]["D"]:
                a, b = b, a
            if b[1]["D"] - a[1]["D"] <= 2 * TOL or abs(b[1]["E"] - a[1]["E"]) <= 2 * TOL:
                ctx.count("deadline_ties_unspecified")
                continue
            if b[1]["E"] < a[1]["E"]:
                ctx.count("unspecified_past_deadline_earlier_than_pending_overdue")
                continue
            # a has the earlier deadline (written and effective); gate when a was scheduled before b ran
            if a[1]["seq"] < runs[b[0]][0][0]:
                ctx.count("deadline_order_pairs")
                cls = "timeouts-out-of-deadline-order"
                if a[1]["E"] > a[1]["D"] or b[1]["E"] > b[1]["D"]:
                    # at least one of the two was scheduled with its deadline already reached
                    ctx.count("deadline_order_pairs_past_when_scheduled")
                    cls = "overdue-timeouts-out-of-deadline-order"
                    if b[1]["seq"] > a[1]["seq"] and b[1]["now"] > a[1]["D"] + 2 * TOL and a[1]["E"] == a[1]["D"]:
                        # a was scheduled ahead of time and was overdue (slow callback) when b was added
                        ctx.count("deadline_order_pairs_late_added_to_overdue_pending")
                ctx.check(runs[a[0]][0][0] < runs[b[0]][0][0], "prog/" + cls,
                          "a timeout with a later deadline ran before one with an earlier deadline",
                          {"early": {"unit": a[0], "D": a[1]["D"], "form": a[1]["form"], "scheduled_at": a[1]["now"]},
                           "late": {"unit": b[0], "D": b[1]["D"], "form": b[1]["form"], "scheduled_at": b[1]["now"]}})
    ctx.check(not S["fut_inline"], "prog/add_future-callback-ran-inline",
              "an add_future callback ran before add_future (or the call resolving the future) returned",
              {"units": S["fut_inline"]})
    for uid in S["errs"]:
        if uid in runs:
            ctx.count("error_units_logged" if uid in logged else "error_units_not_logged")
            ctx.check(uid in logged, "prog/callback-error-not-logged",
                      "a raising callback / failing returned future produced no error log record",
                      {"unit": uid})
    loopthreads = {x[2] for r in runs.values() for x in r}
    ctx.check(len(loopthreads) <= 1, "prog/callback-on-other-thread", "callbacks ran on more than one thread", {})
    n_units = _count_units(case["ops"])
    distinct_D = {round(rec["D"], 6) for rec in sched.values() if rec["kind"] == "to"}
    nontriv = n_units >= 4 and (len(distinct_D) >= 2 or bool(removed) or bool(S["errs"]))
    ctx.mark(("prog", repr(case["ops"])), nontriv)
    if nontriv:
        ctx.sample({"ops": case["ops"]}, limit=2)


# ---------------------------------------------------------------------------
# run_sync on the virtual loop

def run_sync_case(case, ctx):
    io, vl = vloop.make_ioloop()
    obs = {"cancelled": False, "started": False}
    kind, dur, timeout = case["kind"], case["dur"], case["timeout"]
    exc = Boom("sync-boom")
    box = {}

    def func():
        obs["started"] = True
        if kind == "sync_none":
            return None
        if kind == "sync_raise":
            raise exc
        if kind == "sync_value":
            return 42
        if kind in ("coro_value", "coro_raise"):
            async def c():
                obs["body"] = True
                try:
                    await asyncio.sleep(dur)
                except asyncio.CancelledError:
                    obs["cancelled"] = True
                    raise
                if kind == "coro_raise":
                    raise exc
                return "value"
            return c()
        if kind in ("gen_value", "gen_raise"):
            @gen.coroutine
            def g():
                yield gen.sleep(dur)
                if kind == "gen_raise":
                    raise exc
                return "value"
            return g()
        f = asyncio.Future(loop=vl)
        box["f"] = f
        if kind == "future_value":
            vl.call_later(dur, lambda: f.done() or f.set_result("value"))
        else:
            vl.call_later(dur, lambda: f.done() or f.set_exception(exc))
        return f

    with LogMon() as lm:
        lm.attach_loop(vl)
        try:
            if case["pre_raiser"]:
                def raiser():
                    raise Boom("boom-pre")
                io.add_callback(raiser)
            ctx.count("run_sync_evals")
            out = err = None
            try:
                out = io.run_sync(func, timeout=timeout)
            except vloop.Quiescent:
                ctx.violation("sync/loop-idle-with-run_sync-pending", "run_sync never returned (loop quiescent)", dict(case))
                return
            except BaseException as e:
                err = e
            w = {"case": dict(case), "out": repr(out), "err": repr(err)}
            expires = timeout is not None and kind not in ("sync_none", "sync_raise", "sync_value") and dur > timeout
            if not obs["started"]:
                ctx.violation("sync/function-not-called", "run_sync did not call the function", w)
            elif kind == "sync_value":
                ctx.count("unspecified_run_sync_non_awaitable_result")
            elif (timeout is not None and kind not in ("sync_none", "sync_raise", "sync_value")
                  and abs(dur - timeout) < 1e-3):
                # completion and deadline coincide: the statement does not order them
                ctx.count("unspecified_run_sync_deadline_tie")
            elif expires:
                ctx.count("run_sync_timeouts")
                ctx.check(isinstance(err, asyncio.TimeoutError), "sync/timeout-does-not-raise-TimeoutError",
                          "run_sync timeout expired but TimeoutError was not raised", w)
                if kind.startswith("coro"):
                    # a zero timeout can expire before the coroutine body ever ran: then the task is
                    # cancelled without the body observing anything
                    ctx.check(obs["cancelled"] or not obs.get("body"), "sync/timeout-does-not-cancel-the-coroutine",
                              "run_sync raised on timeout but the coroutine never observed CancelledError", w)
                elif kind.startswith("future"):
                    ctx.check(box["f"].cancelled(), "sync/timeout-does-not-cancel-the-future",
                              "run_sync raised on timeout but the returned future was not cancelled", w)
                else:
                    ctx.count("unspecified_gen_coroutine_cancellation")
            elif kind in ("sync_raise", "coro_raise", "gen_raise", "future_exc"):
                ctx.check(err is exc, "sync/exception-not-reraised", "run_sync did not re-raise the function's exception", w)
            else:
                want = None if kind == "sync_none" else "value"
                ctx.check(err is None and out == want, "sync/result-not-returned",
                          "run_sync did not return the function's result", w)
            if case["pre_raiser"]:
                ctx.check(any("boom-pre" in (r["exc_text"] or "") for r in lm.errors()),
                          "sync/callback-error-not-logged", "raising callback before run_sync was not logged", w)
            if case["again"]:
                async def two():
                    await asyncio.sleep(0.01)
                    return 2
                try:
                    r2 = io.run_sync(two)
                except BaseException as e:
                    r2 = e
                ctx.check(r2 == 2, "sync/loop-unusable-after-run_sync", "a second run_sync on the same loop failed",
                          dict(w, second=repr(r2)))
        finally:
            vl.raise_on_quiescent = False
            try:
                io.close(all_fds=False)
            except Exception:
                pass
    ctx.mark(("sync", kind, dur, timeout, case["pre_raiser"], case["again"]), True)


# ---------------------------------------------------------------------------
# (b) real threads on a real loop

WATCHDOG = 60.0


class ThreadMon:
    def __init__(self):
        self.lock = threading.Lock()
        self.executed = []
        self.idents = set()
        self.total = None
        self.all_done = threading.Event()

    def rec(self, tid, s):
        with self.lock:
            self.executed.append((tid, s))
            self.idents.add(threading.get_ident())
            if self.total is not None and len(self.executed) >= self.total:
                self.all_done.set()

    def n(self):
        with self.lock:
            return len(self.executed)


def _pipe_empty(aloop):
    try:
        aloop._ssock.recv(1, socket.MSG_PEEK)
        return False
    except (BlockingIOError, InterruptedError):
        return True
    except OSError:
        return None


def _loop_parked(aloop, ident):
    """Loop thread's innermost frame is the selector's select() reached from _run_once with timeout None."""
    st = shake.thread_stack(ident)
    if not shake.parked_in_selector(st) or not shake.stack_has(st, "base_events.py", "_run_once"):
        return False, st
    t = shake.frame_local(ident, "_run_once", "timeout", "?")
    return (t is None), st


def run_thr(case, ctx):
    from tornado.platform.asyncio import AsyncIOLoop, BaseAsyncIOLoop
    import asyncio.base_events as be
    import asyncio.selector_events as se

    T, M = case["T"], case["M"]
    mon = ThreadMon()
    box = {}
    ready, go, exited = threading.Event(), threading.Event(), threading.Event()
    prehist = [tuple(x) for x in (case.get("prehist") or [])]
    pre_tids = {int(w[1:]) for w, _ in prehist if w[0] == "P"}
    pre_errs = []
    acks = queue.Queue()
    lq = queue.Queue()
    pq = {tid: queue.Queue() for tid in pre_tids}

    def pre_step(who, how):
        """An earlier run of the very same loop, on the calling thread; it leaves the loop stopped."""
        io = box["io"]
        try:
            if how == "run_sync":
                async def setup():
                    await asyncio.sleep(0)
                    return 42
                r = io.run_sync(setup)
                if r != 42:
                    pre_errs.append((who, how, "run_sync returned %r instead of the function's result 42" % (r,)))
            else:
                io.add_callback(io.stop)
                io.start()
        except BaseException as e:      # noqa: BLE001
            pre_errs.append((who, how, repr(e)[:300]))
        finally:
            acks.put((who, how))

    def serve_pre(q, who):
        while True:
            how = q.get()
            if how is None:
                return
            pre_step(who, how)

    def loop_main():
        aloop = asyncio.new_event_loop()
        io = AsyncIOLoop(asyncio_loop=aloop, make_current=False)
        box.update(io=io, aloop=aloop, ident=threading.get_ident())
        ready.set()
        serve_pre(lq, "L")
        go.wait()
        try:
            io.start()
        finally:
            exited.set()

    lt = threading.Thread(target=loop_main, name="vf-loop", daemon=True)
    lt.start()
    ready.wait()
    io, aloop, lident = box["io"], box["aloop"], box["ident"]
    lp = case["loop_producer"] and case["phase"] != "parked"    # keep the parked scenario free of other wake-ups
    ntot = T * M + (M if lp else 0)
    mon.total = ntot

    flavors = list(case.get("flavors") or ["plain"] * T)
    chunk_n = case.get("chunk", 50)
    prod_errs = []

    add_errs = []

    def add(tid, s):
        try:
            io.add_callback(mon.rec, tid, s)
        except BaseException as e:
            add_errs.append((tid, flavors[tid], s, repr(e)[:300]))
            raise

    def producer(tid):
        fl = flavors[tid]
        if tid in pq:
            serve_pre(pq[tid], "P%d" % tid)     # this thread ran the target loop earlier; now it waits for its turn
        try:
            if fl == "plain":
                for s in range(M):
                    add(tid, s)
            elif fl == "aio_coro":
                # the calls are made from inside a coroutine of another asyncio loop running in this thread
                async def inner():
                    for s in range(M):
                        add(tid, s)
                        if (s + 1) % chunk_n == 0:
                            await asyncio.sleep(0)
                asyncio.run(inner())
            elif fl == "aio_cb":
                # ... from a call_soon callback chain of another asyncio loop
                l2 = asyncio.new_event_loop()
                st = {"s": 0}

                def step():
                    for _ in range(chunk_n):
                        if st["s"] >= M:
                            l2.stop()
                            return
                        add(tid, st["s"])
                        st["s"] += 1
                    l2.call_soon(step)
                l2.call_soon(step)
                try:
                    l2.run_forever()
                finally:
                    l2.close()
            elif fl == "ioloop":
                # ... from an add_callback callback chain of a second tornado IOLoop
                io2 = AsyncIOLoop(make_current=False)
                st = {"s": 0}

                def step2():
                    for _ in range(chunk_n):
                        if st["s"] >= M:
                            io2.stop()
                            return
                        add(tid, st["s"])
                        st["s"] += 1
                    io2.add_callback(step2)
                io2.add_callback(step2)
                try:
                    io2.start()
                finally:
                    io2.close(all_fds=True)
            elif fl == "ioloop_sync":
                # ... from a coroutine under a second tornado IOLoop's run_sync
                io2 = AsyncIOLoop(make_current=False)

                async def inner2():
                    for s in range(M):
                        add(tid, s)
                        if (s + 1) % chunk_n == 0:
                            await gen.sleep(0)
                try:
                    io2.run_sync(inner2)
                finally:
                    io2.close(all_fds=True)
            else:
                raise ValueError(fl)
        except BaseException as e:      # a producer must not die silently (would read as callback-never-ran)
            prod_errs.append((tid, fl, repr(e)[:300]))

    def loop_producer():
        # the loop thread adds its own callbacks (call_soon path) in chunks while the others race
        state = {"s": 0}

        def chunk():
            for _ in range(50):
                if state["s"] >= M:
                    return
                io.add_callback(mon.rec, "L", state["s"])
                state["s"] += 1
            aloop.call_soon(chunk)
        chunk()

    codes = shake.code_objects(BaseAsyncIOLoop.add_callback, be.BaseEventLoop.call_soon_threadsafe,
                               se.BaseSelectorEventLoop._write_to_self, IOLoop._run_callback)
    threads = [threading.Thread(target=producer, args=(i,), name=f"vf-prod{i}", daemon=True) for i in range(T)]
    witness = None
    inconclusive = None
    started = set()

    def launch(t):
        tid = threads.index(t)
        if tid in started:
            pq[tid].put(None)       # already running (it ran the loop before): release it into its producer part
        else:
            started.add(tid)
            t.start()

    # ---- history of the loop object: earlier runs on other threads, strictly one after the other
    for who, how in prehist:
        if who == "X":
            x = threading.Thread(target=pre_step, args=(who, how), name="vf-retired", daemon=True)
            x.start()
        elif who == "L":
            lq.put(how)
        else:
            tid = int(who[1:])
            if tid not in started:
                started.add(tid)
                threads[tid].start()
            pq[tid].put(how)
        try:
            acks.get(timeout=WATCHDOG)
        except queue.Empty:
            inconclusive = "an earlier run of the loop (%s %s) did not return" % (who, how)
            break
        if who == "X":
            x.join(WATCHDOG)
    lq.put(None)
    if inconclusive is not None or pre_errs:
        # nothing was started on the final loop thread; free the helper threads and report
        for tid in started:
            flavors[tid] = "plain"
        M = 0
        for tid in list(started):
            pq[tid].put(None)
        go.set()
        try:
            box["aloop"].call_soon_threadsafe(box["aloop"].stop)
        except RuntimeError:
            pass
        exited.wait(10)
        lt.join(5)
        if not lt.is_alive():
            try:
                io.close(all_fds=True)
            except Exception:
                pass
        ctx.count("thr_runs")
        if pre_errs:
            ctx.violation("thr/run-of-loop-before-migration-failed",
                          "run_sync / start()+stop() of a fresh IOLoop on a thread raised or returned the wrong result",
                          {"errors": pre_errs[:3], "prehist": prehist})
            return
        ctx.count("thr_inconclusive")
        raise RuntimeError("INCONCLUSIVE thr run: " + inconclusive)
    sh = shake.Shaker(codes, case["sseed"], p_yield=case["p_yield"], p_sleep=case["p_sleep"])
    sh.install()
    try:
        t_end = time.monotonic() + WATCHDOG
        if case["phase"] == "before":
            for t in threads:
                launch(t)
            for t in threads:
                t.join()
            go.set()
            if lp:
                aloop.call_soon_threadsafe(loop_producer)
        else:
            go.set()
            if case["phase"] == "parked":
                # producers start only once the loop thread has been *observed* parked in select with no timer
                while time.monotonic() < t_end:
                    p, _ = _loop_parked(aloop, lident)
                    if p and not aloop._ready and not aloop._scheduled and _pipe_empty(aloop):
                        ctx.count("thr_parked_starts")
                        break
                    time.sleep(0.001)
                else:
                    inconclusive = "loop thread never observed parked before producers"
                if any(f != "plain" for f in flavors):
                    ctx.count("thr_parked_own_loop_starts")
                if pre_tids and inconclusive is None:
                    ctx.count("thr_parked_former_runner_producer_runs")
            later = set()
            if case.get("own_last"):
                # plain producers run to completion first; the loop is then left to the own-loop producers alone
                later |= {i for i in range(T) if flavors[i] != "plain"}
            if case.get("pre_last"):
                # ... resp. to the producers whose thread ran this very loop earlier
                later |= pre_tids
            first = [t for i, t in enumerate(threads) if i not in later]
            for t in first:
                launch(t)
            if lp:
                aloop.call_soon_threadsafe(loop_producer)      # harness channel, not the method under test
            for t in first:
                t.join()
            rest = [t for t in threads if t not in first]
            for t in rest:
                launch(t)
            for t in rest:
                t.join()
        # all producers have returned from add_callback: from here a stuck loop is permanent
        stable, last = 0, -1
        while not mon.all_done.wait(0.02):
            n = mon.n()
            parked, st = _loop_parked(aloop, lident)
            ready_n = len(aloop._ready)
            pe = _pipe_empty(aloop)
            if parked and ready_n > 0 and pe is True and n == last:
                stable += 1
                if stable >= 3:
                    witness = {"loop_thread_stack": shake.brief(st), "select_timeout": None, "ready_queue": ready_n,
                               "self_pipe_empty": True, "executed": n, "expected": ntot,
                               "producers_alive": [t.name for t in threads if t.is_alive()]}
                    break
            else:
                stable = 0
            last = n
            if time.monotonic() > t_end:
                inconclusive = "watchdog expired without a structural stuck-state witness: " + repr(
                    {"stack": shake.brief(st), "ready": ready_n, "pipe_empty": pe, "executed": n, "expected": ntot})
                break
        if witness is None and inconclusive is None:
            # everything enqueued has run; flush once more to expose duplicates that arrive late
            ev = threading.Event()
            aloop.call_soon_threadsafe(ev.set)
            ev.wait(10)
    finally:
        sh.uninstall()
        try:
            aloop.call_soon_threadsafe(aloop.stop)     # harness channel: wakes a stuck loop too
        except RuntimeError:
            pass
        go.set()
        exited.wait(10)
        lt.join(5)
        if not lt.is_alive():
            try:
                io.close(all_fds=True)
            except Exception:
                pass
    ctx.count("thr_runs")
    if prehist:
        ctx.count("thr_migrated_loop_runs")
        ctx.count("thr_migrated_prior_runs", len(prehist))
        for w, h in prehist:
            ctx.count("thr_prior_run_on_" + ("producer" if w[0] == "P" else "retired_thread" if w == "X" else "loop_thread"))
            ctx.count("thr_prior_run_by_" + h)
    n_own = sum(1 for f in flavors if f != "plain")
    if n_own:
        ctx.count("thr_own_loop_producer_runs")
        ctx.count("thr_own_loop_producers", n_own)
        for f in set(flavors) - {"plain"}:
            ctx.count("thr_flavor_" + f)
    if add_errs:
        ctx.violation("thr/add_callback-raised-in-producer-thread",
                      "add_callback raised in a producer thread although the target loop was open (that callback can never run)",
                      {"errors": add_errs[:3]})
        return
    if prod_errs:
        # the producer's own loop (harness) failed: nothing can be said about the schedule
        ctx.count("thr_inconclusive")
        raise RuntimeError("INCONCLUSIVE thr run: producer thread failed outside add_callback: " + repr(prod_errs[:3]))
    ctx.count("shake_lines", sh.lines)
    ctx.count("shake_sleeps", sh.sleeps + sh.yields)
    if witness is not None:
        ctx.violation("thr/lost-wakeup-loop-parked-in-select-with-ready-callbacks",
                      "all producer threads returned from add_callback, yet the loop thread stays parked in select(timeout=None) "
                      "with callbacks in its ready queue and an empty self-pipe (nothing will ever wake it)", witness)
    if inconclusive is not None:
        ctx.count("thr_inconclusive")
        raise RuntimeError("INCONCLUSIVE thr run: " + inconclusive)
    with mon.lock:
        ex = list(mon.executed)
        idents = set(mon.idents)
    ctx.count("thr_callbacks", len(ex))
    if witness is None:
        seen = {}
        for tid, s in ex:
            seen[(tid, s)] = seen.get((tid, s), 0) + 1
        dup = [k for k, v in seen.items() if v > 1]
        want = {(t, s) for t in range(T) for s in range(M)}
        if lp:
            want |= {("L", s) for s in range(M)}
        missing = sorted(want - set(seen), key=repr)
        ctx.check(not dup, "thr/callback-ran-twice", "a callback added from a thread ran more than once", {"dups": dup[:5]})
        ctx.check(not missing, "thr/callback-never-ran", "a callback added from a thread never ran although the loop drained",
                  {"missing": missing[:5], "n_missing": len(missing)})
        per = {}
        bad = None
        for tid, s in ex:
            if s < per.get(tid, -1) and bad is None:
                bad = (tid, per[tid], s)
            per[tid] = max(per.get(tid, -1), s)
        ctx.check(bad is None, "thr/per-thread-order-not-preserved",
                  "callbacks added by one thread ran out of their scheduling order", {"thread,prev,next": bad})
        ctx.check(idents <= {lident}, "thr/callback-ran-off-the-loop-thread", "a callback ran on a thread other than the loop's",
                  {"n_threads": len(idents)})
        ctx.seen("interleavings", [t for t, _ in ex])
        # how mixed was it: number of thread switches in the executed sequence
        sw = sum(1 for a, b in zip(ex, ex[1:]) if a[0] != b[0])
        ctx.count("thr_thread_switches_in_execution", sw)
    ctx.mark(("thr", T, M, case["phase"], case["loop_producer"], case["p_yield"], case["p_sleep"], case["sseed"],
              tuple(flavors), chunk_n, bool(case.get("own_last")), tuple(prehist), bool(case.get("pre_last"))), T >= 2)
    ctx.sample({k: case.get(k) for k in ("T", "M", "phase", "loop_producer", "flavors", "chunk", "own_last", "prehist",
                                         "pre_last")}, limit=1)


def run_case(case, ctx):
    if case["k"] == "prog":
        run_prog(case, ctx)
    elif case["k"] == "sync":
        run_sync_case(case, ctx)
    else:
        run_thr(case, ctx)
