"""C23 — signed values cannot be forged, replayed across names, or crash the reader.

Pure-function monitor of tornado.web.create_signed_value / decode_signed_value.
Time only enters through the public `clock=` argument.

For every generated valid value V = create(secret, name, value, version, t):
  * round trip at now in {t, inside, t + floor(max_age)}           -> utf8(value)
  * negative controls (other name / secret / key version / expired / min_version) -> None
  * EVERY single-byte substitution / insertion / deletion at every position
    over a 13-symbol alphabet, every truncation, field-boundary moves (v1 pipe
    shifts, name<->payload shifts, v2 length-prefix re-partitions), field swaps
    with a second valid value, version-prefix games                 -> None
and for arbitrary str/bytes inputs under str / bytes / dict secrets: never raises, None.
"""
from __future__ import annotations

import base64
import logging
import math
import re

from vf import core

core.use_repo()
from tornado import web  # noqa: E402

PROP = "C23"
META = {
    "level": "exploration",
    "technique": "round-trip + exhaustive single-byte-edit / field-boundary tamper enumeration per generated value, totality fuzz under all secret forms",
    "level_text": "Every generated signed value (both formats, str/bytes/key-dict secrets, plain str/bytes secrets combined with a key_version argument (None, 0 and non-zero up to 10**12) at signing time, names with separators/unicode/controls, timestamps from 1 s to 11 digits, fractional max_age) is decoded inside its validity window (must return the value), under each negative control (must return None), and under every single-byte edit at every position plus structured field-boundary moves, truncations and swaps (must return None, must not raise); arbitrary strings and bytes are decoded under every secret form (must not raise).",
    "level_note": "HMAC collisions are assumed not to occur by chance; strings with lone surrogates (not encodable) are executed but not judged; sub-second behaviour at the expiry boundary is not judged (integer creation times, decode times at least 1 s away from the boundary).",
    "design_ref": "DESIGN.md §4 C23",
    "engine": "oracle",
}
RULE = ("a case is either one valid signed value (secret form x key_version x name x value x format version x creation time x max_age) "
        "together with its complete single-byte-edit family and structured tampers, or one arbitrary input string; "
        "a value case is non-trivial when its round trip succeeded and >= 100 tampered variants were judged; an "
        "arbitrary-input case is non-trivial when it is non-empty; distinct by the generating tuple")
FLOORS = {"quick": 3000, "thorough": 60000}
ASSUMPTIONS = ["no accidental HMAC collision", "creation clock returns whole seconds",
               "names and secrets are UTF-8 encodable (no lone surrogates)"]
REQUIRED_COUNTERS = ["oracle_evals", "roundtrip_evals", "tamper_evals", "control_evals", "totality_evals",
                     "tamper_v1", "tamper_v2", "dict_secret_evals", "plain_secret_nonzero_key_version"]

for _n in ("tornado.general", "tornado.application"):
    logging.getLogger(_n).setLevel(logging.CRITICAL + 1)

EDIT_ALPHA = b"019|:=afAZ-\n "
NAME_CHARS = "abcxyzUSER09_-.|:= /é中\n\t"
TS_POOL = [1, 2, 9, 10, 15, 99, 100, 268, 9999, 86400, 2678399, 2678400, 2678401, 99999999, 999999999,
           1000000000, 1234567890, 1700000000, 2147483647, 2147483648, 9999999999, 10000000000, 12345678901]
MAD_POOL = [31, 31, 31, 1, 0.5, 0.001, 0, 365, 1 / 3, 20000, 1e6, 7.25]
# key_version argument used together with a plain (str/bytes) secret
PLAIN_KV = [None, None, 0, 1, 2, 3, 7, 10, 100, 4096, 2 ** 31, 10 ** 12]


def shards(tier, seed):
    if tier == "quick":
        return [{"n_rt": 22, "n_arb": 2500} for _ in range(16)]
    return [{"n_rt": 150, "n_arb": 30000} for _ in range(64)]


# ------------------------------------------------------------------ generation

def _rand_text(rng, alphabet, lo, hi):
    return "".join(rng.choice(alphabet) for _ in range(rng.randint(lo, hi)))


def _rand_value(rng):
    k = rng.random()
    if k < 0.15:
        # payload whose base64 text ends in decimal digits (v1 payload/timestamp ambiguity)
        digits = "".join(rng.choice("0123456789") for _ in range(4 * rng.randint(1, 3)))
        if rng.random() < 0.4:
            digits = digits[:-4] + rng.choice(["0000", "1000", "0001", "0010"])
        return rng.randbytes(rng.choice([0, 3, 6])) + base64.b64decode(digits)
    if k < 0.3:
        return _rand_text(rng, "abc|:=019 é中", 0, 12)
    if k < 0.4:
        return b""
    if k < 0.45:
        return rng.randbytes(rng.choice([300, 1000, 2048]))
    n = rng.choice([1, 2, 3, 4, 5, 8, 16, 31])
    return rng.randbytes(n)


def _rand_secret(rng):
    form = rng.choice(["str", "bytes", "dict", "dict"])
    # A plain secret may be combined with any key_version at signing time (Application(cookie_secret="...",
    # key_version=N) / create_signed_value(..., key_version=N)): the version is recorded in the value and the same
    # plain secret must still decode it.
    if form == "str":
        return form, _rand_text(rng, "abcdefgh0123é|", 0, 40), rng.choice(PLAIN_KV)
    if form == "bytes":
        return form, rng.randbytes(rng.choice([0, 1, 16, 64, 100])), rng.choice(PLAIN_KV)
    keys = rng.sample([0, 1, 2, 3, 7, 10, 12, 100], rng.randint(1, 3))
    d = {k: (_rand_text(rng, "abcdefgh0123", 4, 20) + str(i) if rng.random() < 0.7 else rng.randbytes(12) + bytes([i]))
         for i, k in enumerate(keys)}
    return form, d, rng.choice(keys)


def gen_cases(spec):
    rng = core.rng_for(spec["seed"], PROP, spec["shard"])
    for i in range(spec["n_rt"]):
        form, secret, kv = _rand_secret(rng)
        ver = 2 if form == "dict" else rng.choice([1, 1, 2])
        name = _rand_text(rng, NAME_CHARS if rng.random() < 0.5 else "abcdefuser_-id09", 0 if rng.random() < 0.05 else 1, 10)
        yield {"k": "rt", "sf": form, "secret": secret, "kv": kv, "ver": ver, "name": name,
               "value": _rand_value(rng), "t": rng.choice(TS_POOL) if rng.random() < 0.7 else rng.randint(1, 2 * 10 ** 10),
               "mad": rng.choice(MAD_POOL), "eseed": rng.getrandbits(32)}
    for i in range(spec["n_arb"]):
        form, secret, kv = _rand_secret(rng)
        yield {"k": "arb", "sf": form, "secret": secret, "name": _rand_text(rng, "abc|:09", 0, 4),
               "s": _rand_arbitrary(rng), "minv": rng.choice([None, None, 1, 2]),
               "mad": rng.choice(MAD_POOL), "now": rng.choice(TS_POOL)}


_V1ISH = ["YWJj", "MTIzNA==", "", "1234", "abc", "0", "17", "1700000000", "-1", "+5", " 1", "1_0", "٣",
          "da39a3ee5e6b4b0d3255bfef95601890afd80709", "x" * 64, "=", "=="]
_V2ISH = ["2", "1", "02", "3", "1000", "999", "0", "1:0", "1:1", "2:10", "10:1700000000", "4:name", "0:", "-1:x", "+1:0",
          "1_0:abcdefghij", " 1:0", "4:YWJj", "99:abc", "x:y", ":", "", "a" * 64, "1:٣", "00:", "1: 0", "1:0\n"]


def _rand_arbitrary(rng):
    k = rng.random()
    if k < 0.3:
        s = "|".join(rng.choice(_V1ISH) for _ in range(rng.choice([1, 2, 3, 3, 3, 4])))
    elif k < 0.65:
        s = "|".join([rng.choice(["2", "2", "2", "1", "02", "3", "999", "1000"])] +
                     [rng.choice(_V2ISH) for _ in range(rng.choice([0, 1, 3, 4, 5, 5, 5, 6]))])
    elif k < 0.8:
        s = _rand_text(rng, "0123456789|:=abYZéÿ\x00\n -+_", 0, 30)
    elif k < 0.9:
        s = "".join(chr(rng.choice([rng.randint(0, 255), rng.randint(0x100, 0xD7FF), rng.randint(0xE000, 0x10FFFF)]))
                    for _ in range(rng.randint(1, 12)))
    else:
        return rng.randbytes(rng.randint(1, 40))
    if rng.random() < 0.25:
        return s.encode("utf-8")
    return s


def directed_cases():
    # dict secret + input that looks like format v1 (fixes/C23-dict-secret-v1-assert)
    yield {"k": "arb", "sf": "dict", "secret": {1: "s"}, "name": "n", "s": "abc", "minv": None, "mad": 31, "now": 1700000000}
    yield {"k": "arb", "sf": "dict", "secret": {1: "s"}, "name": "n", "s": "1|2|3", "minv": 1, "mad": 31, "now": 1700000000}
    # v1 pipe shift into the timestamp (fixes/C23-v1-timestamp-valueerror)
    yield {"k": "rt", "sf": "str", "secret": "s", "kv": None, "ver": 1, "name": "n", "value": b"abc",
           "t": 1700000000, "mad": 31, "eseed": 1}
    # v2 name containing a line feed (fixes/C23-version-regex-newline)
    yield {"k": "rt", "sf": "str", "secret": "s", "kv": None, "ver": 2, "name": "a\nb", "value": b"abc",
           "t": 1700000000, "mad": 31, "eseed": 2}
    # v2 non-ASCII name (fixes/C23-v2-nonascii-name-length)
    yield {"k": "rt", "sf": "dict", "secret": {3: "s"}, "kv": 3, "ver": 2, "name": "é", "value": "x",
           "t": 1700000000, "mad": 31, "eseed": 5}
    # plain secret signed with a non-zero key_version: the same plain secret decodes it
    yield {"k": "rt", "sf": "str", "secret": "s3cret", "kv": 3, "ver": 2, "name": "user", "value": b"abc",
           "t": 1700000000, "mad": 31, "eseed": 7}
    yield {"k": "rt", "sf": "bytes", "secret": b"k" * 16, "kv": 1, "ver": 2, "name": "n", "value": "x",
           "t": 99, "mad": 0.5, "eseed": 8}
    # payload whose base64 ends in 0000: moving it into the timestamp is stopped only by the leading-zero check
    yield {"k": "rt", "sf": "str", "secret": "s", "kv": None, "ver": 1, "name": "n", "value": base64.b64decode("abcd12340000"),
           "t": 1700000000, "mad": 31, "eseed": 6}
    # v1 undelimited signature: cross-name replay and payload/timestamp digit migration (known finding)
    yield {"k": "rt", "sf": "str", "secret": "s", "kv": None, "ver": 1, "name": "user-", "value": b"a",
           "t": 15, "mad": 31, "eseed": 3}
    yield {"k": "rt", "sf": "bytes", "secret": b"k", "kv": None, "ver": 1, "name": "username",
           "value": base64.b64decode("00001234"), "t": 1700000000, "mad": 20000, "eseed": 4}


# ------------------------------------------------------------------ oracle helpers

def _u8(x):
    return x if isinstance(x, bytes) else x.encode("utf-8")


def _shape(v: bytes):
    if v.startswith(b"2|"):
        return "v2-prefixed"
    if re.match(rb"[0-9]+\|", v):
        return "other-version-prefixed"
    return "unprefixed"


def _encodable(s):
    if isinstance(s, bytes):
        return True
    try:
        s.encode("utf-8")
        return True
    except UnicodeEncodeError:
        return False


def decode(ctx, sf, secret, name, value, mad, now, minv=None, what="decode"):
    """Call the real decoder. Returns (ok, result); a raise is reported here
    with a mechanism that depends only on exception type, secret form and
    the crude shape of the input."""
    ctx.count("totality_evals")
    if sf == "dict":
        ctx.count("dict_secret_evals")
    try:
        return True, web.decode_signed_value(secret, name, value, max_age_days=mad, clock=lambda: now, min_version=minv)
    except Exception as e:
        vb = value if isinstance(value, bytes) else (value.encode("utf-8", "surrogatepass") if value is not None else b"")
        ctx.count("oracle_evals")
        ctx.violation(f"raises-{type(e).__name__}/{sf}-secret/{_shape(vb)}",
                      f"decode_signed_value raised {type(e).__name__} ({what}); the statement says it never raises",
                      {"value": value, "name": name, "secret_form": sf, "min_version": minv, "now": now,
                       "max_age_days": mad, "exc": repr(e)[:200]})
        return False, None


def _ts_class(w: bytes, now, window):
    """Shape of the timestamp field of a re-split v1 value (classifier input only)."""
    p = w.split(b"|")
    ts = p[1] if len(p) == 3 else b""
    if not re.fullmatch(rb"[0-9]+", ts):
        return "non-numeric-timestamp"
    if ts.startswith(b"0"):
        return "leading-zero-timestamp"
    n = int(ts)
    if n > now + 31 * 86400:
        return "future-timestamp"
    if n < now - window:
        return "expired-timestamp"
    return "in-window-timestamp"


def expect_none(ctx, case, kind, sf, secret, name, value, mad, now, orig, minv=None, extra=None):
    ok, r = decode(ctx, sf, secret, name, value, mad, now, minv, what=kind)
    ctx.count("oracle_evals")
    if ok and r is not None:
        same = "same-value" if r == orig else "forged-value"
        if kind == "tamper/v1/pipe-shift":
            kind = kind + "/" + _ts_class(value, now, mad * 86400)
        ctx.violation(f"{kind}/accepted-{same}",
                      f"decode_signed_value returned a value for an input that is not the signed value issued ({kind})",
                      {"presented": value, "presented_name": name, "returned": r, "original_payload": orig,
                       "now": now, "max_age_days": mad, "min_version": minv, "extra": extra})
    return ok and r is None


# ------------------------------------------------------------------ tamper enumeration

def single_byte_edits(v: bytes, extra_byte: int):
    alpha = EDIT_ALPHA + bytes([extra_byte])
    n = len(v)
    for i in range(n + 1):
        for c in alpha:
            yield "ins", v[:i] + bytes([c]) + v[i:]
        if i < n:
            yield "del", v[:i] + v[i + 1:]
            for c in alpha:
                if c != v[i]:
                    yield "sub", v[:i] + bytes([c]) + v[i + 1:]


def v1_structured(v: bytes):
    p = v.split(b"|")
    if len(p) != 3:
        return
    b64, ts, sig = p
    # move the payload/timestamp boundary (signature input is the plain concatenation)
    joined = b64 + ts
    for cut in range(0, len(joined) + 1):
        if cut != len(b64):
            yield "pipe-shift", joined[:cut] + b"|" + joined[cut:] + b"|" + sig
    # move the timestamp/signature boundary
    j2 = ts + sig
    for cut in sorted({0, 1, len(ts) - 1, len(ts) + 1, len(ts) + 2, len(j2)}):
        if 0 <= cut <= len(j2) and cut != len(ts):
            yield "pipe2-shift", b64 + b"|" + j2[:cut] + b"|" + j2[cut:]
    yield "fields-reordered", b"|".join([ts, b64, sig])
    yield "fields-reordered", b"|".join([b64, sig, ts])
    yield "version-prefix", b"1|" + v
    yield "version-prefix", b"2|" + v
    yield "version-prefix", b"01|" + v
    yield "version-prefix", b"1000|" + v
    yield "sig-case", b64 + b"|" + ts + b"|" + sig.upper()
    yield "ts-rewrite", b64 + b"|0" + ts + b"|" + sig
    yield "ts-rewrite", b64 + b"|+" + ts + b"|" + sig
    yield "ts-rewrite", b64 + b"| " + ts + b"|" + sig
    yield "ts-rewrite", b64 + b"|" + ts + b" |" + sig
    yield "ts-rewrite", b64 + b"|" + ts[:1] + b"_" + ts[1:] + b"|" + sig
    yield "payload-rewrite", b64.rstrip(b"=") + b"|" + ts + b"|" + sig if b64.endswith(b"=") else b64 + b"=|" + ts + b"|" + sig
    yield "payload-rewrite", b64 + b"\n|" + ts + b"|" + sig
    yield "payload-rewrite", b" " + v
    yield "payload-rewrite", v + b"\n"


def v2_fields(v: bytes):
    """Independent splitter for values *we* created: returns [(start, end)] of the
    four length-prefixed fields' "len:content" spans and the signature start."""
    assert v.startswith(b"2|")
    pos = 2
    spans = []
    for _ in range(4):
        c = v.index(b":", pos)
        n = int(v[pos:c])
        end = c + 1 + n
        assert v[end:end + 1] == b"|"
        spans.append((pos, c, end))
        pos = end + 1
    return spans, pos


def v2_structured(v: bytes, other: bytes):
    spans, sigpos = v2_fields(v)
    ospans, osig = v2_fields(other)
    sig = v[sigpos:]
    head = v[:sigpos]
    # swap each field / the signature with the other valid value's
    for i, ((a, c, e), (oa, oc, oe)) in enumerate(zip(spans, ospans)):
        yield f"field-swap", v[:a] + other[oa:oe] + v[e:]
    yield "sig-swap", head + other[osig:]
    yield "sig-swap", other[:osig] + sig
    # re-partition: make field i swallow field i+1 (lengths adjusted so the framing still parses)
    for i in range(3):
        a, c, e = spans[i]
        a2, c2, e2 = spans[i + 1]
        merged_len = e2 - (c + 1)
        yield "repartition", v[:a] + str(merged_len).encode() + v[c:e2] + b"|0:" + v[e2:]
        yield "repartition", v[:a] + str(merged_len).encode() + v[c:]
    # split a field in two
    for i in range(4):
        a, c, e = spans[i]
        n = e - c - 1
        if n >= 2:
            yield "repartition", v[:a] + b"1" + v[c:c + 2] + b"|" + str(n - 1).encode() + b":" + v[c + 2:]
    # equivalent-looking length spellings (int() is lenient)
    for i in range(4):
        a, c, e = spans[i]
        L = v[a:c]
        for alt in (b"0" + L, b"+" + L, b" " + L, L + b" ", L[:1] + b"_" + L[1:] if len(L) > 1 else L + b"_", b"-" + L):
            yield "length-respelled", v[:a] + alt + v[c:]
    # key version / timestamp content rewrites
    a, c, e = spans[0]
    for alt in (b"1:0", b"1:1", b"1:2", b"2:00", b"2:10", b"2:+0", b"2: 0", b"0:", b"1:x"):
        if alt != v[a:e]:
            yield "keyversion-rewrite", v[:a] + alt + v[e:]
    a, c, e = spans[1]
    ts = v[c + 1:e]
    for alt in (b"0" + ts, ts + b"0", b"+" + ts, b"9" * len(ts)):
        yield "ts-rewrite", v[:a] + str(len(alt)).encode() + b":" + alt + v[e:]
    yield "version-prefix", b"1|" + v
    yield "version-prefix", b"2|" + v
    yield "version-prefix", b"02" + v[1:]
    yield "version-prefix", b"3" + v[1:]
    yield "version-prefix", b"1" + v[1:]
    yield "version-prefix", b"1000" + v[1:]
    yield "version-prefix", v[2:]
    yield "sig-case", head + sig.upper()
    yield "trailing", v + b"\n"
    yield "trailing", v + b"|"
    yield "trailing", b" " + v
    yield "sig-empty", head
    yield "sig-short", head + sig[:-1]
    yield "sig-short", head + sig[:32]


# ------------------------------------------------------------------ case execution

def run_case(case, ctx):
    if case["k"] == "arb":
        return run_arb(case, ctx)
    return run_rt(case, ctx)


def run_arb(case, ctx):
    s = case["s"]
    if not _encodable(s):
        ctx.count("unspecified_lone_surrogate")
        return
    ok, r = decode(ctx, case["sf"], case["secret"], case["name"], s, case["mad"], case["now"], case["minv"], what="arbitrary input")
    ctx.count("oracle_evals")
    ctx.count("arbitrary_inputs")
    if ok and r is not None:
        ctx.violation("arbitrary-input/accepted", "decode_signed_value returned a value for a string that was never signed",
                      {"s": s, "returned": r})
    ctx.mark(("arb", case["sf"], repr(case["secret"]), s, case["minv"]), nontrivial=bool(s))
    if case["sf"] == "dict" and _shape(_u8(s)) != "v2-prefixed":
        ctx.count("dict_secret_v1_shaped_inputs")


def run_rt(case, ctx):
    import random
    rng = random.Random(case["eseed"])
    sf, secret, kv, ver, name, value, t, mad = (case[k] for k in ("sf", "secret", "kv", "ver", "name", "value", "t", "mad"))
    want = _u8(value)
    try:
        v = web.create_signed_value(secret, name, value, version=ver, clock=lambda: t, key_version=kv)
    except Exception as e:
        ctx.violation(f"create/raises-{type(e).__name__}", "create_signed_value raised for a valid configuration",
                      {"exc": repr(e)[:200]})
        return
    plain_kv = sf != "dict" and ver == 2 and bool(kv)
    if plain_kv:
        ctx.count("plain_secret_nonzero_key_version")
    window = mad * 86400
    inside = [t, t + int(math.floor(window))]
    if window >= 2:
        inside.append(t + rng.randint(0, int(math.floor(window))))
    rt_ok = True
    for now in inside:
        for presented in (v, v.decode("utf-8")):
            for minv in (None, ver):
                ctx.count("roundtrip_evals")
                ok, r = decode(ctx, sf, secret, name, presented, mad, now, minv, what="round trip")
                ctx.count("oracle_evals")
                if ok and r != want:
                    rt_ok = False
                    shape = "returns-None" if r is None else "wrong-value"
                    lf = "/name-contains-LF" if "\n" in name else ("/name-non-ascii" if not name.isascii() else "")
                    if plain_kv:
                        lf += "/plain-secret-with-key-version"
                    ctx.violation(f"roundtrip/v{ver}/{shape}{lf}",
                                  "decoding a signed value inside its validity window with the same secret and name did not return the original value",
                                  {"signed": v, "name": name, "want": want, "got": r, "t": t, "now": now, "max_age_days": mad,
                                   "min_version": minv})
                rt_ok = rt_ok and ok
            if not rt_ok:
                break
    ctx.count(f"created_v{ver}")
    if not rt_ok:
        ctx.mark(("rt-failed", sf, name, want, ver, t, mad), nontrivial=False)
        return
    now = inside[-1] if len(inside) > 2 else t

    # ---- negative controls
    def ctl(kind, *a, **k):
        ctx.count("control_evals")
        return expect_none(ctx, case, kind, *a, **k)

    expired = t + int(math.ceil(window)) + 1 + rng.choice([0, 1, 86400, 10 ** 9])
    ctl(f"control/v{ver}/expired", sf, secret, name, v, mad, expired, want)
    for other in (name + "x", name[:-1] if name else "n", name.upper() if name.upper() != name else name + " ", "", name + "\n"):
        if other != name:
            ctl(f"control/v{ver}/other-name", sf, secret, other, v, mad, now, want, extra={"signed_for": name})
    if sf == "dict":
        others = [{k: (_u8(s) + b"!") for k, s in secret.items()}, {k + 1: s for k, s in secret.items() if k + 1 not in secret or secret[k + 1] != s}]
        swapped = dict(secret)
        ks = list(secret)
        if len(ks) >= 2:
            o = ks[0] if ks[0] != kv else ks[1]
            swapped[kv], swapped[o] = secret[o], secret[kv]
            others.append(swapped)
        others.append({k: s for k, s in secret.items() if k != kv})
        for osec in others:
            if kv in osec and _u8(osec[kv]) == _u8(secret[kv]):
                continue
            ctl("control/v2/other-key-version-or-secret", "dict", osec, name, v, mad, now, want)
        ctl("control/v2/other-secret", "bytes", _u8(secret[kv]) + b"x", name, v, mad, now, want)
    else:
        osec = (secret + "x") if isinstance(secret, str) else (secret + b"x")
        ctl(f"control/v{ver}/other-secret", sf, osec, name, v, mad, now, want)
        if secret:
            # (never shorten: HMAC zero-pads short keys, so b"k" and b"k\x00" are the same key)
            first = ("y" if secret[0] != "y" else "z") if isinstance(secret, str) else bytes([secret[0] ^ 1])
            ctl(f"control/v{ver}/other-secret", sf, first + secret[1:], name, v, mad, now, want)
    if ver == 1:
        ctl("control/v1/below-min-version", sf, secret, name, v, mad, now, want, minv=2)

    # ---- tampering
    n_t = 0
    other_v = web.create_signed_value(secret, name + "2", want + b"Z", version=ver, clock=lambda: t + 1, key_version=kv)
    fam = f"tamper_v{ver}"
    seen = {v}
    extra_byte = rng.randrange(256)
    for kind, w in single_byte_edits(v, extra_byte):
        if w in seen:
            continue
        n_t += 1
        ctx.count("tamper_evals")
        ctx.count(fam)
        expect_none(ctx, case, f"tamper/v{ver}/single-byte-{kind}", sf, secret, name, w, mad, now, want)
    for cut in range(len(v)):
        n_t += 1
        ctx.count("tamper_evals")
        expect_none(ctx, case, f"tamper/v{ver}/truncation", sf, secret, name, v[:cut], mad, now, want)
    structured = v1_structured(v) if ver == 1 else v2_structured(v, other_v)
    for kind, w in structured:
        if w in seen:
            continue
        n_t += 1
        ctx.count("tamper_evals")
        ctx.count("structured_tampers")
        # decode at `t` as well: time-window checks are part of what stops v1 boundary moves
        for at in {now, t}:
            expect_none(ctx, case, f"tamper/v{ver}/{kind}", sf, secret, name, w, mad, at, want)
    if ver == 1:
        # name <-> payload boundary moves (the v1 signature input is name+payload+timestamp undelimited)
        b64, rest = v.split(b"|", 1)
        for k in range(1, min(len(name), 8) + 1):
            moved = name[-k:]
            n_t += 1
            ctx.count("tamper_evals")
            ctx.count("name_shift_evals")
            expect_none(ctx, case, "tamper/v1/name-shift", sf, secret, name[:-k], _u8(moved) + v, mad, now, want,
                        extra={"signed_for": name})
        b64s = b64.decode("ascii")
        for k in range(1, min(len(b64s), 8) + 1):
            n_t += 1
            ctx.count("tamper_evals")
            ctx.count("name_shift_evals")
            expect_none(ctx, case, "tamper/v1/name-shift", sf, secret, name + b64s[:k], b64[k:] + b"|" + rest, mad, now, want,
                        extra={"signed_for": name})
    ctx.count("tampers_per_value_total", n_t)
    nontriv = n_t >= 100
    if ctx.mark(("rt", sf, repr(secret), kv, name, want, ver, t, mad), nontriv) and nontriv:
        ctx.sample({"signed": v, "name": name, "secret_form": sf, "t": t, "max_age_days": mad, "tampers": n_t})
