"""C26 — StaticFileHandler never leaves its root.

Real StaticFileHandler mounts (static_path, explicit route with default_filename,
root configured with a trailing slash) behind HTTPServer; request paths from a
traversal grammar; verdict from an independent join+normalise oracle
(vf/refs/staticfx.py) over a fixture tree with prefix-sharing siblings.
Existence oracle: every outside path that denotes an existing object is paired
with a twin that denotes nothing; the two answers must be indistinguishable.
"""
from __future__ import annotations

import posixpath
import random

from vf import core
from vf.refs import webrig
from vf.refs.staticfx import Fixture, norm_join, pct_decode

core.use_repo()
import tornado.web  # noqa: E402

PROP = "C26"
META = {
    "level": "exploration",
    "technique": "independent path-normalisation oracle + content fingerprints + paired existing/non-existing outside requests, through the real server",
    "level_text": "Generated URL paths ('..', '.', empty, absolute, encoded and double-encoded dots/slashes/backslashes/NUL, overlong UTF-8, prefix-sibling names, very long segments; targeted detours that land exactly on outside files, prefix siblings and inside files) are requested (GET/HEAD, optionally with Range/conditional headers) from three StaticFileHandler mounts over a fixture tree; an independent join+normalise decides inside/outside; outside paths must give 403/404 with no Location and no fixture content, and must answer identically whether or not the target exists; anything served must be exactly the file the normalised path denotes.",
    "level_note": "Trusts the 12-line normaliser (cross-checked against posixpath.normpath on every case). Symlinks are not part of the fixture (the statement speaks of the normalised, not the resolved, path). Paths that are not valid UTF-8 after one percent-decoding may also be answered 400. Whether an inside path is served at all (availability) is not judged, only what is served.",
    "design_ref": "DESIGN.md §4 C26",
    "engine": "wire",
}
RULE = ("a case is (mount, raw path after the mount prefix, method, optional Range/conditional header); non-trivial when "
        "the oracle classifies it outside the root AND it denotes an existing file/directory (paired with a non-existing twin), "
        "or when it is inside and a file was served through at least one '..'/encoded/empty segment; distinct by the case tuple")
FLOORS = {"quick": 3000, "thorough": 80000}
ASSUMPTIONS = ["reference normaliser is correct", "no symlinks below the fixture", "POSIX path semantics"]
REQUIRED_COUNTERS = ["oracle_evals", "outside_evals", "outside_existing_evals", "pair_evals", "inside_served",
                     "content_evals", "safety_evals", "prefix_sibling_evals"]

MOUNTS = {"static": "/static/", "files": "/files/", "slash": "/t/"}
SEGS = ["..", "..", "..", ".", "", "%2e%2e", "%2E%2e", ".%2e", "%2e.", "%2f", "%5c", "\\", "%00", "..%2f", "..%2F..", "....//", "....",
        "...", "..;", "..%00", "%252e%252e", "%252f", "..%5c", "..\\", "%c0%ae%c0%ae", "%c0%af", "%ff", "%e9", "~", "a.txt", "sub", "deep",
        "index.html", "b.txt", "c.txt", "empty", ".hidden", "sp%20ace.txt", "secret.txt", "root2", "secret2.txt", "rootx", "root", "roo",
        "secret3.txt", "outside", "d.txt", "etc", "passwd", "proc", "self", "environ", "x" * 300, "y" * 5000, "%u002e", "%2", "%", "%zz", "é", "%C3%A9"]
TAILS_AT_BASE = ["secret.txt", "rootx", "root2/secret2.txt", "root2", "root2/", "roo/secret3.txt", "roo", "outside/", "outside",
                 "outside/d.txt", "outside/index.html", "root/a.txt", "root/", "root", "root/sub/b.txt", "nonexistent.txt", "root2/nope", ""]


def shards(tier, seed):
    if tier == "quick":
        return [{"n": 1700} for _ in range(16)]
    return [{"n": 30000} for _ in range(32)]


# ------------------------------------------------------------------ generation

def _enc_seg(rng, seg):
    """Optionally percent-encode (once / twice) characters of a plain segment."""
    k = rng.random()
    if k < 0.55 or "%" in seg:
        return seg
    out = []
    mode = rng.choice(["dots", "all", "some", "double-dots"])
    for ch in seg:
        e = "%%%02x" % ord(ch) if ord(ch) < 128 else ch
        if rng.random() < 0.5:
            e = e.upper() if e.startswith("%") else e
        if mode == "dots":
            out.append(e if ch == "." else ch)
        elif mode == "all":
            out.append(e)
        elif mode == "some":
            out.append(e if rng.random() < 0.4 else ch)
        else:
            out.append(e.replace("%", "%25") if ch == "." else ch)
    return "".join(out)


def _join(rng, segs):
    out = []
    for i, s in enumerate(segs):
        if i:
            out.append(rng.choices(["/", "//", "/./", "%2f", "%2F", "%5c", "\\"], [70, 8, 6, 6, 3, 4, 3])[0])
        out.append(_enc_seg(rng, s))
    return "".join(out)


def gen_rel(rng):
    k = rng.random()
    if k < 0.5:
        down = rng.choice([[], ["sub"], ["sub", "deep"], ["empty"], ["nonexistent"], ["a.txt"]])
        ups = rng.randint(0, len(down) + 2)
        tail = rng.choice(TAILS_AT_BASE) if ups == len(down) + 1 else rng.choice(
            ["a.txt", "sub/b.txt", "index.html", "", "sub/", "sub", "secret.txt", "etc/passwd", "rootx", "../secret.txt", "../rootx"])
        segs = down + [".."] * ups + [t for t in tail.split("/")] if tail else down + [".."] * ups
        if tail.endswith("/"):
            pass
        return _join(rng, segs)
    if k < 0.62:
        return _join(rng, rng.choice([
            ["@BASE@", "secret.txt"], ["", "etc", "passwd"], ["", "", "etc", "passwd"], ["@BASE@", "root", "a.txt"],
            ["@BASE@", "root", "..", "secret.txt"], ["@BASE@", "rootx"], ["@BASE@", "root2", "secret2.txt"], ["@BASE@", "root"],
            ["", "etc", ""], ["", "proc", "self", "environ"], ["@BASE@", ""], ["@BASE@", "root", "sub", "..", "..", "..", "outside", "d.txt"]]))
    if k < 0.7:
        return rng.choice(["..%2f" * rng.randint(1, 6) + t for t in ("secret.txt", "rootx", "root2/secret2.txt", "etc/passwd")] +
                          ["....//" * 3 + "secret.txt", "..%c0%af..%c0%afsecret.txt", "%2e%2e/%2e%2e/etc/passwd",
                           "..%00/secret.txt", "../secret.txt%00.txt", "..\\..\\secret.txt", "..%5c..%5csecret.txt",
                           "%252e%252e/secret.txt", "../root2/../root/a.txt", "../root/../rootx", "..//secret.txt", "./../secret.txt",
                           "sub/../../secret.txt", "../ROOT/a.txt", "../root2", "../root2/", "..", "../", ".", "", "/", "//"])
    return _join(rng, [rng.choice(SEGS) for _ in range(rng.randint(1, 8))])


def gen_cases(spec):
    rng = core.rng_for(spec["seed"], PROP, spec["shard"])
    for _ in range(spec["n"]):
        hdr = rng.choices([None, "range", "inm", "ims", "v"], [75, 8, 6, 6, 5])[0]
        yield {"mount": rng.choice(["static", "files", "files", "slash"]), "rel": gen_rel(rng),
               "method": rng.choice(["GET", "GET", "GET", "HEAD"]), "hdr": hdr}


def directed_cases():
    for rel in ["../secret.txt", "../rootx", "../root2/secret2.txt", "..%2f..%2fetc/passwd", "@BASE@/secret.txt", "/etc/passwd",
                "sub/../a.txt", "a.txt", "", "sub", "sub/", "../root2", "../outside/", "%2e%2e/secret.txt"]:
        for mount in ("static", "files", "slash"):
            yield {"mount": mount, "rel": rel, "method": "GET", "hdr": None}


# ------------------------------------------------------------------ session

def make_session(lm):
    fx = Fixture()
    app = tornado.web.Application(
        [(r"/files/(.*)", tornado.web.StaticFileHandler, {"path": fx.root, "default_filename": "index.html"}),
         (r"/t/(.*)", tornado.web.StaticFileHandler, {"path": fx.root + "/", "default_filename": "index.html"})],
        static_path=fx.root, log_function=lambda h: None)
    s = webrig.Session(app, lm)
    s.fx = fx
    s.cleanup.append(fx.remove)
    tornado.web.StaticFileHandler.reset()
    return s


HDRS = {"range": ("Range", "bytes=0-3"), "inm": ("If-None-Match", "*"),
        "ims": ("If-Modified-Since", "Fri, 01 Jan 2100 00:00:00 GMT")}


def _sendable(raw: bytes):
    return all((0x21 <= b <= 0x7E or b >= 0x80) and b not in b"?#" for b in raw)


async def fetch(sess, mount, raw_rel: bytes, method, hdr):
    target = MOUNTS[mount].encode() + raw_rel + (b"?v=1" if hdr == "v" else b"")
    headers = [HDRS[hdr]] if hdr in HDRS else []
    return await sess.request(webrig.build_request(method, target, headers), method)


def classify(fx, raw_rel: bytes):
    """-> dict(decodable, rel, norm, inside, exists, kind)"""
    dec = pct_decode(raw_rel)
    try:
        rel = dec.decode("utf-8")
    except UnicodeDecodeError:
        return {"decodable": False}
    norm = norm_join(fx.root, rel)
    alt = posixpath.normpath(posixpath.join(fx.root, rel))
    if alt.startswith("//"):
        alt = alt[1:]
    inside = fx.inside(norm)
    if inside:
        kind = "inside"
    elif norm.startswith(fx.root):
        kind = "prefix-sibling"
    elif rel.startswith("/"):
        kind = "absolute"
    elif norm.startswith(fx.base + "/") or norm == fx.base:
        kind = "fixture-sibling"
    else:
        kind = "elsewhere"
    return {"decodable": True, "rel": rel, "norm": norm, "agree": alt == norm, "inside": inside,
            "exists": "\x00" not in norm and fx.exists(norm), "kind": kind}


async def acase(case, ctx, sess):
    fx = sess.fx
    text = case["rel"].replace("@BASE@", fx.base)
    try:
        raw_rel = text.encode("latin-1")
    except UnicodeEncodeError:
        raw_rel = text.encode("utf-8")
    if not _sendable(raw_rel):
        ctx.count("skipped_not_sendable")
        return
    mount, method, hdr = case["mount"], case["method"], case["hdr"]
    cl = classify(fx, raw_rel)
    try:
        r = await fetch(sess, mount, raw_rel, method, hdr)
    except webrig.WireError as e:
        ctx.violation(f"wire/{e.kind}", "response is not a well-framed HTTP message", {"why": e.why, "raw": e.raw})
        return
    wit = {"request": method + " " + (MOUNTS[mount].encode() + raw_rel).decode("latin-1"), "hdr": hdr,
           "status": r.status if r else None, "location": r.get("location") if r else None,
           "body": (r.body[:120] if r else None), "oracle": {k: v for k, v in cl.items() if k != "rel"}, "root": fx.root}
    if not webrig.safety(ctx, sess, r, "static request"):
        return
    ctx.count("oracle_evals")
    if r is None:
        ctx.violation("no-response", "connection closed without a response", wit)
        return
    if r.status >= 500:
        ctx.violation(f"status-{r.status}", "server error for a static path", wit)
        return
    # content fingerprints: whatever the classification, content of an outside file must never appear
    ctx.count("content_evals")
    served_file = None
    for p, data in fx.files.items():
        if r.body and (r.body == data or data in r.body or (hdr == "range" and r.status == 206 and r.body == data[:4])):
            served_file = p
    if served_file and not fx.inside(served_file):
        ctx.violation("outside/content-served", "response body carries the content of a file outside the root", dict(wit, file=served_file))
        return
    if not cl["decodable"]:
        ctx.count("unspecified_undecodable_path")
        if r.status not in (400, 403, 404):
            ctx.violation(f"undecodable-path/status-{r.status}", "path that is not UTF-8 after decoding must be refused", wit)
        ctx.mark((mount, raw_rel, method, hdr), nontrivial=False)
        return
    if not cl["agree"]:
        ctx.violation("harness/normaliser-disagrees-with-posixpath", "reference normaliser and posixpath.normpath differ", wit)
        return
    if not cl["inside"]:
        ctx.count("outside_evals")
        if cl["kind"] == "prefix-sibling":
            ctx.count("prefix_sibling_evals")
        bad = None
        if r.status not in (403, 404):
            bad = f"status-{r.status}"
        elif r.get("location") is not None:
            bad = "location-header"
        if bad:
            ctx.violation(f"outside/{cl['kind']}/{bad}", "a path outside the static root was not refused with a plain 403/404", wit)
            return
        nontriv = False
        if cl["exists"]:
            ctx.count("outside_existing_evals")
            # existence oracle: twin that denotes nothing
            twin = raw_rel.rstrip(b"/") + b"zq9" if raw_rel.rstrip(b"/") else None
            if twin is not None:
                c2 = classify(fx, twin)
                if c2["decodable"] and not c2["inside"] and not c2["exists"]:
                    r2 = await fetch(sess, mount, twin, method, hdr)
                    webrig.safety(ctx, sess, r2, "static twin request")
                    ctx.count("pair_evals")
                    ctx.count("oracle_evals")
                    nontriv = True
                    same = r2 is not None and r2.status == r.status and (r2.get("location") is None) == (r.get("location") is None) \
                        and len(r2.body) == len(r.body)
                    if not same:
                        ctx.violation(f"outside/existence-revealed/{r.status}-vs-{r2.status if r2 else None}",
                                      "an outside path is answered differently depending on whether its target exists",
                                      dict(wit, twin=twin, twin_status=r2.status if r2 else None))
                        return
        if ctx.mark((mount, raw_rel, method, hdr), nontriv) and nontriv and len(ctx.samples) < 3:
            ctx.sample(wit)
        return
    # ---- inside
    ctx.count("inside_evals")
    norm = cl["norm"]
    req_path = (MOUNTS[mount].encode() + raw_rel).decode("latin-1")
    has_default = mount in ("files", "slash")
    if norm in fx.files:
        expfile = norm
    elif norm in fx.dirs and has_default and req_path.endswith("/"):
        expfile = norm + "/index.html"
    else:
        expfile = None
    served = r.status in (200, 206, 304)
    if served:
        if expfile is None or expfile not in fx.files:
            ctx.violation("inside/served-something-for-non-file", "a 200/206/304 for a path that denotes no file", wit)
            return
        if method == "GET" and r.status == 200 and r.body != fx.files[expfile]:
            ctx.violation("inside/served-wrong-content", "body differs from the file the normalised path denotes", dict(wit, expected_file=expfile))
            return
        ctx.count("inside_served")
    elif r.status in (301, 302):
        loc = r.get("location") or b""
        # (Tornado re-encodes literal non-ASCII request bytes as UTF-8 in Location; either spelling is the same path)
        if not (norm in fx.dirs and has_default and (req_path + "/") in (loc.decode("latin-1"), loc.decode("utf-8", "replace"))):
            ctx.violation("inside/unexpected-redirect", "redirect for something that is not an inside directory with a default file", wit)
            return
        ctx.count("inside_dir_redirects")
    elif r.status in (403, 404):
        ctx.count("inside_refused")
    else:
        ctx.violation(f"inside/status-{r.status}", "unexpected status for an inside path", wit)
        return
    detour = any(t in case["rel"] for t in ("..", "%", "//", "/./", "\\"))
    ctx.mark((mount, raw_rel, method, hdr), nontrivial=bool(served and detour))


def run_shard(spec, ctx):
    import itertools
    directed = list(directed_cases()) if spec.get("shard", 0) == 0 else []
    ctx.count("directed_cases", len(directed))
    webrig.run_cases(make_session, itertools.chain(directed, gen_cases(spec)), acase, ctx)


def run_case(case, ctx):
    webrig.run_cases(make_session, [case], acase, ctx, count_evals=False)
