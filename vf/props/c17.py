"""C17 — WebSocket handshakes accept exactly the valid, permitted upgrades.

Server side: raw upgrade requests (independent builder in vf/refs/ws.py) against the
real Application/WebSocketHandler; every header dimension carries a label computed by
the *generator*: A (must accept), R (must reject), U (unspecified).  A request is
MUST-REJECT if any dimension is R, MUST-ACCEPT if all are A, else UNSPECIFIED.
For every 101: Sec-WebSocket-Accept recomputed with hashlib, Sec-WebSocket-Protocol
equals what select_subprotocol returned, Sec-WebSocket-Extensions only if
permessage-deflate was offered and compression is enabled, and only with offered
parameters.

Client side: the real websocket_connect against a raw server sending mutated 101
responses; it must refuse a wrong/missing accept value, a subprotocol or extension
(or extension parameter) it did not offer, and non-websocket Upgrade/Connection
values.  The same client cases also run in a `python -O` shard: a rejection that only
exists as an `assert` is not a rejection.
"""
from __future__ import annotations

import base64
import itertools
import random

from vf import core, vloop
from vf.logmon import LogMon
from vf.refs import ws, ws_rig

core.use_repo()

PROP = "C17"
META = {
    "level": "exploration",
    "technique": "decision-table oracle over generated handshakes (labels fixed by the generator), independent recomputation "
                 "of Sec-WebSocket-Accept, negotiated-subset check for subprotocol/extension; client side incl. a python -O shard",
    "level_text": "Single-dimension sweeps, all pairs and random combinations of {absent, empty, valid, case variants, "
                  "malformed} values for Upgrade, Connection, Sec-WebSocket-Key, Sec-WebSocket-Version, Host x Origin shapes "
                  "(same, other host, other port, port named on one side only, prefix/suffix look-alikes, userinfo, upper-case, trailing dot, null) x "
                  "check_origin overrides x subprotocol offers x selection policies x extension offers x compression "
                  "enabled/disabled are sent to the real server; mutated 101 responses are sent to the real client, under "
                  "normal python and under python -O.",
    "level_note": "UNSPECIFIED (executed, safety half only): Connection values that are not plain comma-separated token "
                  "lists, versions 7/8, malformed keys, missing Host, Origin with explicit default port (and a portless Origin against a Host that spells out :80/:443) / userinfo / "
                  "trailing dot / upper-case Host / empty, invalid deflate parameter values, application selecting an "
                  "unoffered subprotocol.",
    "design_ref": "DESIGN.md §4 C17",
    "engine": "wire",
}
RULE = ("a case is one handshake: server side = value class per header dimension (upgrade, connection, key, version, host, "
        "origin, origin override, subprotocol offer, selection policy, extension offer, compression); client side = "
        "(offered subprotocols, compression on/off) x mutated response (status, upgrade, connection, accept, protocol, "
        "extensions); a case is non-trivial if at least one dimension is off-nominal; distinct by the value tuple")
FLOORS = {"quick": 2000, "thorough": 60000}
ASSUMPTIONS = ["labels A/R/U are fixed by the generator from RFC 6455 section 4 restricted to what the statement pins",
               "virtual loop over AF_UNIX"]
REQUIRED_COUNTERS = ["oracle_evals", "server_must_accept", "server_must_reject", "server_101_checked",
                     "origin_port_presence_differs_from_host/must-reject",
                     "client_must_accept", "client_must_reject", "client_cases_under_O"]

H0 = "127.0.0.1:9999"

UPGRADE = [("A", "websocket"), ("A", "WebSocket"), ("A", "WEBSOCKET"), ("R", None), ("R", ""), ("R", "h2c"),
           ("R", "websocketx"), ("R", "web socket"), ("U", "websocket, h2c"), ("R", "xwebsocket")]
CONNECTION = [("A", "Upgrade"), ("A", "upgrade"), ("A", "UPGRADE"), ("A", "keep-alive, Upgrade"),
              ("A", "Upgrade, keep-alive"), ("A", "keep-alive,upgrade"), ("R", None), ("R", ""), ("R", "keep-alive"),
              ("R", "close"), ("R", "upgradex"), ("R", "xupgrade"), ("R", "up-grade"),
              ("U", "Upgrade;q=1"), ("U", ",Upgrade,"), ("U", "keep-alive Upgrade"), ("U", "\"Upgrade\"")]
VERSION = [("A", "13"), ("U", "8"), ("U", "7"), ("R", "12"), ("R", "14"), ("R", None), ("R", ""), ("R", "abc"),
           ("R", "1"), ("R", "130"), ("U", "13, 8"), ("R", "0")]


def _key(rng):
    return base64.b64encode(rng.randbytes(16)).decode()


def key_variants(rng):
    k = _key(rng)
    return [("A", k), ("A", _key(rng)), ("R", None), ("R", ""), ("U", "notbase64!!"), ("U", "YWJj"),
            ("U", k + "="), ("U", base64.b64encode(rng.randbytes(20)).decode())]


HOSTS = [("A", "127.0.0.1:9999"), ("A", "example.com"), ("A", "example.com:8080"), ("A", "[::1]:8080"),
         ("A", "example.com:80"), ("A", "localhost:443"),
         ("U", "EXAMPLE.com"), ("U", None), ("U", "")]


def origin_variants(host):
    """[(label, value, header-name)] for a (lower-case, non-empty) Host value."""
    h = host
    if h.startswith("["):
        name, _, port = h.rpartition(":") if "]:" in h else (h, "", "")
    else:
        name, _, port = h.partition(":")
    other_port = ":%d" % ((int(port) + 1) if port else 8081)
    out = [("A", None, "Origin"), ("A", "http://" + h, "Origin"), ("A", "https://" + h, "Origin"),
           ("A", "ws://" + h, "Origin"),
           ("U", "http://" + h.upper(), "Origin"), ("U", "http://" + h + "/path?q=1", "Origin"),
           ("R", "http://evil.com" + ((":" + port) if port else ""), "Origin"),
           ("R", "http://evil" + h, "Origin"), ("R", "http://" + name + ".evil.com" + ((":" + port) if port else ""), "Origin"),
           ("R", "http://" + h + ".evil.com", "Origin"),
           ("R", "http://" + name + other_port, "Origin"),
           ("R", "http://" + h + "@evil.com", "Origin"),
           ("U", "http://user@" + h, "Origin"), ("U", "http://" + name + "." + ((":" + port) if port else ""), "Origin"),
           ("R", "null", "Origin"), ("U", "", "Origin"), ("R", "garbage", "Origin"), ("R", "http://", "Origin"),
           ("U", "http://" + h, "Sec-WebSocket-Origin"), ("U", "http://evil.com", "Sec-WebSocket-Origin")]
    if not port:
        out.append(("U", "http://" + h + ":80", "Origin"))
        out.append(("U", "https://" + h + ":443", "Origin"))
        out.append(("R", "http://" + h + ":8080", "Origin"))
        out.append(("R", "https://" + h + ":8443", "Origin"))
    else:
        # the converse: Origin without a port (= the scheme's default port) against a Host that names its port.
        # "host and port equal the Host header": a port other than 80/443 can equal no scheme's default => refuse;
        # Host spelling out 80/443 is the same port only under default-port equivalence, which is not pinned.
        lab = "U" if port in ("80", "443") else "R"
        for scheme in ("http", "https", "ws", "wss"):
            out.append((lab, scheme + "://" + name, "Origin"))
        out.append((lab, "http://" + name + "/", "Origin"))
        out.append((lab, "https://" + name + "/app/index.html", "Origin"))
        out.append((lab, "http://" + name.upper(), "Origin"))
        out.append((lab, "http://" + name + ":", "Origin"))           # empty port
    return out


PROTO_OFFER = [None, "a", "a, b", "a,b", "b ,  a", "chat, superchat", ""]
POLICY = ["none", "first", "last", "fixed-b", "empty-string"]
EXT_OFFER = [("A", None), ("A", "permessage-deflate"), ("A", "permessage-deflate; client_max_window_bits"),
             ("A", "permessage-deflate; client_max_window_bits=10"), ("A", "permessage-deflate; server_max_window_bits=12"),
             ("A", "permessage-deflate; server_no_context_takeover"), ("A", "permessage-deflate; client_no_context_takeover"),
             ("A", "permessage-deflate; server_no_context_takeover; client_no_context_takeover; server_max_window_bits=9; "
                   "client_max_window_bits=15"),
             ("A", "x-webkit-deflate-frame"), ("A", "x-foo; bar=1, permessage-deflate"),
             ("A", "permessage-deflate, x-foo"),
             ("A", "permessage-deflate; client_max_window_bits=11, permessage-deflate"),
             ("U", "permessage-deflate; foo=1"), ("U", "permessage-deflate; server_max_window_bits=7"),
             ("U", "permessage-deflate; client_max_window_bits=16"), ("U", "permessage-deflate; server_max_window_bits=abc"),
             ("U", "permessage-deflate; server_max_window_bits=\"10\"")]

NOMINAL = {"upgrade": ("A", "websocket"), "connection": ("A", "Upgrade"), "version": ("A", "13"),
           "host": ("A", H0), "origin": ("A", None, "Origin"), "override": None, "protocols": None, "policy": "none",
           "ext": ("A", None), "compress": False}


# ---------------------------------------------------------------------------
# server-side generation

def server_case(rng, **over):
    c = dict(NOMINAL)
    c["key"] = ("A", _key(rng))
    c.update(over)
    c["side"] = "server"
    return c


def gen_server_sweeps(rng):
    """Single-dimension sweeps and selected pairs."""
    for v in UPGRADE:
        yield server_case(rng, upgrade=v)
    for v in CONNECTION:
        yield server_case(rng, connection=v)
    for v in VERSION:
        yield server_case(rng, version=v)
    for v in key_variants(rng):
        yield server_case(rng, key=v)
    for hv in HOSTS:
        yield server_case(rng, host=hv)
        if hv[1]:
            for ov in origin_variants(hv[1].lower()):
                lab = ov[0] if hv[0] == "A" else ("U" if ov[0] == "A" else ov[0])
                for override in (None, True, False):
                    yield server_case(rng, host=hv, origin=(lab, ov[1], ov[2]), override=override)
    for po in PROTO_OFFER:
        for pol in POLICY:
            yield server_case(rng, protocols=po, policy=pol)
    for ev in EXT_OFFER:
        for comp in (False, True):
            yield server_case(rng, ext=ev, compress=comp)
    # pairs of the four required headers
    for a, b in itertools.product(UPGRADE, CONNECTION):
        yield server_case(rng, upgrade=a, connection=b)
    for a, b in itertools.product(VERSION, key_variants(rng)):
        yield server_case(rng, version=a, key=b)


def gen_server_random(rng):
    hv = rng.choice(HOSTS)
    c = server_case(rng,
                    upgrade=rng.choice(UPGRADE) if rng.random() < 0.3 else NOMINAL["upgrade"],
                    connection=rng.choice(CONNECTION) if rng.random() < 0.3 else NOMINAL["connection"],
                    version=rng.choice(VERSION) if rng.random() < 0.3 else NOMINAL["version"],
                    host=hv, protocols=rng.choice(PROTO_OFFER), policy=rng.choice(POLICY),
                    ext=rng.choice(EXT_OFFER), compress=rng.random() < 0.5,
                    override=rng.choice([None, None, None, True, False]))
    if rng.random() < 0.3:
        c["key"] = rng.choice(key_variants(rng))
    if hv[1]:
        ov = rng.choice(origin_variants(hv[1].lower()))
        lab = ov[0] if hv[0] == "A" else ("U" if ov[0] == "A" else ov[0])
        c["origin"] = (lab, ov[1], ov[2])
    return c


# ---------------------------------------------------------------------------
# client-side generation

C_STATUS = [("A", "101 Switching Protocols"), ("A", "101 Whatever"), ("R", "200 OK"), ("R", "400 Bad Request"),
            ("R", "426 Upgrade Required"), ("R", "301 Moved Permanently")]
C_UPGRADE = [("A", "websocket"), ("A", "WebSocket"), ("R", None), ("R", "h2c"), ("R", ""), ("U", "websocket, h2c")]
C_CONNECTION = [("A", "Upgrade"), ("A", "upgrade"), ("R", None), ("R", "close"), ("R", "keep-alive"), ("R", ""),
                ("U", "keep-alive, Upgrade"), ("U", "Upgrade, keep-alive")]
C_ACCEPT = [("A", "correct"), ("R", "absent"), ("R", "empty"), ("R", "random"), ("R", "other-key"), ("R", "lowercased"),
            ("R", "truncated"), ("R", "key-echoed"), ("R", "unpadded")]
C_OFFERS = [None, ["a"], ["a", "b"], ["chat", "superchat"]]
C_EXT = ["none", "permessage-deflate", "permessage-deflate; server_no_context_takeover",
         "permessage-deflate; client_no_context_takeover", "permessage-deflate; client_max_window_bits=10",
         "permessage-deflate; server_max_window_bits=12", "x-foo", "permessage-deflate; foo=1",
         "permessage-deflate, x-foo", "x-foo, permessage-deflate", "permessage-deflate; client_max_window_bits=7",
         "permessage-deflate; server_max_window_bits=16"]


def proto_variants(offers):
    out = [("A", None)]
    for o in offers or []:
        out.append(("A", o))
    out += [("R", "evil"), ("R", "zzz")]
    if offers:
        out.append(("U", ", ".join(offers)) if len(offers) > 1 else ("U", offers[0].upper()))
        out.append(("R", offers[0] + "x"))
    return out


def ext_label(ext, compress):
    if ext == "none":
        return "A"
    elems = ws.parse_extensions(ext)
    allowed = {"server_no_context_takeover", "client_no_context_takeover", "server_max_window_bits",
               "client_max_window_bits"}
    lab = "A"
    for name, params in elems:
        if name != "permessage-deflate" or not compress:
            return "R"                    # an extension the client did not offer
        for k, v in params.items():
            if k not in allowed:
                return "R"                # a parameter that does not exist / was not offered
            if k.endswith("max_window_bits") and not (v and v.isdigit() and 9 <= int(v) <= 15):
                lab = "U"
    if len(elems) > 1:
        lab = "U" if lab == "A" else lab
    return lab


CNOM = {"status": ("A", "101 Switching Protocols"), "upgrade": ("A", "websocket"), "connection": ("A", "Upgrade"),
        "accept": ("A", "correct"), "offers": None, "proto": ("A", None), "compress": False, "ext": "none"}


def client_case(**over):
    c = dict(CNOM)
    c.update(over)
    c["side"] = "client"
    return c


def gen_client_sweeps():
    for v in C_STATUS:
        yield client_case(status=v)
    for v in C_UPGRADE:
        yield client_case(upgrade=v)
    for v in C_CONNECTION:
        yield client_case(connection=v)
    for v in C_ACCEPT:
        for offers in (None, ["a"]):
            yield client_case(accept=v, offers=offers, proto=("A", offers[0]) if offers else ("A", None))
    for offers in C_OFFERS:
        for pv in proto_variants(offers):
            yield client_case(offers=offers, proto=pv)
    for comp in (False, True):
        for e in C_EXT:
            yield client_case(compress=comp, ext=e)
    for a, b in itertools.product(C_UPGRADE, C_CONNECTION):
        yield client_case(upgrade=a, connection=b)


def gen_client_random(rng):
    offers = rng.choice(C_OFFERS)
    return client_case(status=rng.choice(C_STATUS) if rng.random() < 0.15 else CNOM["status"],
                       upgrade=rng.choice(C_UPGRADE) if rng.random() < 0.25 else CNOM["upgrade"],
                       connection=rng.choice(C_CONNECTION) if rng.random() < 0.25 else CNOM["connection"],
                       accept=rng.choice(C_ACCEPT) if rng.random() < 0.3 else CNOM["accept"],
                       offers=offers, proto=rng.choice(proto_variants(offers)),
                       compress=rng.random() < 0.5, ext=rng.choice(C_EXT) if rng.random() < 0.5 else "none")


# ---------------------------------------------------------------------------
# shards

def shards(tier, seed):
    out = []
    nr = {"quick": 150, "thorough": 9000}[tier]
    for j in range(8):
        out.append({"kind": "server", "j": j, "of": 8, "nrand": nr})
    for j in range(4):
        out.append({"kind": "client", "j": j, "of": 4, "nrand": nr // 2, "opt": False})
    for j in range(4):
        out.append({"kind": "client", "j": j, "of": 4, "nrand": nr // 2, "opt": True, "pyflags": ["-O"]})
    return out


def gen_cases(spec):
    rng = core.rng_for(spec["seed"], PROP, "%s-%d" % (spec["kind"], spec["j"]))
    if spec["kind"] == "server":
        sweeps = list(gen_server_sweeps(random.Random(1234)))
        for i, c in enumerate(sweeps):
            if i % spec["of"] == spec["j"]:
                yield c
        for _ in range(spec["nrand"]):
            yield gen_server_random(rng)
    else:
        sweeps = list(gen_client_sweeps())
        for i, c in enumerate(sweeps):
            if i % spec["of"] == spec["j"]:
                yield dict(c, opt=spec["opt"])
        for _ in range(spec["nrand"]):
            yield dict(gen_client_random(rng), opt=spec["opt"])


def directed_cases():
    # probe-confirmed (DESIGN §5): server answers a subprotocol the client never offered
    yield client_case(offers=["good"], proto=("R", "evil"), opt=False)
    yield client_case(offers=None, proto=("R", "evil"), opt=False)


# ---------------------------------------------------------------------------
# server-side execution

def overall(labels):
    if "R" in labels:
        return "R"
    if "U" in labels:
        return "U"
    return "A"


async def run_server(case):
    rec = ws_rig.Rec()
    returned = []

    def select(protos):
        pol = case["policy"]
        if pol == "none":
            r = None
        elif pol == "first":
            r = protos[0] if protos else None
        elif pol == "last":
            r = protos[-1] if protos else None
        elif pol == "fixed-b":
            r = "b"
        else:
            r = ""
        returned.append((list(protos), r))
        return r

    H = ws_rig.make_handler(rec, compression={} if case["compress"] else None, select=select,
                            origin_ok=case["override"])
    s = ws_rig.ServerSession(H)
    try:
        hs = []
        if case["host"][1] is not None:
            hs.append(("Host", case["host"][1]))
        for name, dim in (("Upgrade", "upgrade"), ("Connection", "connection"), ("Sec-WebSocket-Key", "key"),
                          ("Sec-WebSocket-Version", "version")):
            if case[dim][1] is not None:
                hs.append((name, case[dim][1]))
        if case["origin"][1] is not None:
            hs.append((case["origin"][2], case["origin"][1]))
        if case["protocols"] is not None:
            hs.append(("Sec-WebSocket-Protocol", case["protocols"]))
        if case["ext"][1] is not None:
            hs.append(("Sec-WebSocket-Extensions", case["ext"][1]))
        head = await s.handshake(request=ws.client_request("/ws", hs))
        await s.peer.drain(1)
        return {"status": head.status if head else None, "first": head.first if head else None,
                "headers": head.headers if head else [], "eof": s.peer.eof, "returned": returned,
                "opened": rec.count("open"), "request": hs}
    finally:
        await s.close()


def judge_server(case, r, ctx, lm):
    labels = {d: case[d][0] for d in ("upgrade", "connection", "key", "version", "host", "origin", "ext")}
    if case["override"] is True and case["origin"][1] is not None:
        labels["origin"] = "A"            # the application's check_origin permits every origin
    if case["override"] is False and case["origin"][1] is not None:
        labels["origin"] = "R"
    # application selecting something that was not offered (or the empty string): unspecified outcome
    pol = case["policy"]
    offered = [t.strip() for t in (case["protocols"] or "").split(",") if t.strip()]
    if pol == "fixed-b" and "b" not in offered:
        labels["policy"] = "U"
    if case["protocols"] == "":
        labels["protocols"] = "U"
    lab = overall(labels.values())
    accepted = r["status"] == 101
    if case["override"] is None and case["origin"][1] and case["host"][0] == "A" and case["origin"][2] == "Origin":
        onet = case["origin"][1].partition("://")[2].partition("/")[0]
        hport = case["host"][1].rpartition("]")[2].partition(":")[2]
        oport = onet.rpartition("]")[2].partition(":")[2]
        if "@" not in onet and bool(hport) != bool(oport):
            ctx.count("origin_port_presence_differs_from_host/" + {"A": "must-accept", "R": "must-reject",
                                                                   "U": "unspecified"}[case["origin"][0]])
    wit = {"request": r["request"], "labels": labels, "status": r["first"], "response_headers": r["headers"],
           "policy": pol, "compress": case["compress"], "override": case["override"], "returned": r["returned"]}
    offdims = sorted(d for d, v in labels.items() if v != "A")
    if lab == "R":
        ctx.count("server_must_reject")
        bad = sorted(d for d, v in labels.items() if v == "R")
        for d in bad:          # every R dimension of an accepted request was not enforced
            ctx.check(not accepted, "server/accepted-although/" + d,
                      "101 although %s" % ("the origin check must fail" if d == "origin" else
                                           "the required %s header is missing/invalid" % d), wit)
        ctx.check(r["opened"] == 0 or accepted, "server/opened-without-101", "open() ran although the handshake was refused", wit)
    elif lab == "A":
        ctx.count("server_must_accept")
        ctx.check(accepted, "server/rejected-valid-upgrade", "valid, permitted upgrade request was not completed", wit)
    else:
        ctx.count("server_unspecified")
        ctx.count("unspecified_accepted" if accepted else "unspecified_rejected")
        ctx.seen("unspecified_server", ("+".join(offdims), accepted))
    if accepted:
        ctx.count("server_101_checked")
        hd = ws.HTTPHead(r["first"], [tuple(x) for x in r["headers"]], b"")
        key = (case["key"][1] or "").strip(" \t")
        ctx.check(hd.get_all("Sec-WebSocket-Accept") == [ws.accept_for(key)], "server/accept-value-wrong",
                  "Sec-WebSocket-Accept is not base64(SHA1(key + GUID))", {**wit, "want": ws.accept_for(key)})
        ctx.check([v.lower() for v in hd.get_all("Upgrade")] == ["websocket"]
                  and "upgrade" in [t.lower() for v in hd.get_all("Connection") for t in ws.tokens(v)],
                  "server/101-without-upgrade-headers", "101 response lacks Upgrade: websocket / Connection: Upgrade", wit)
        # subprotocol: exactly what the application selected
        sel = r["returned"][-1][1] if r["returned"] else None
        got = hd.get_all("Sec-WebSocket-Protocol")
        want = [sel] if sel else []
        ctx.check(got == want, "server/subprotocol-header-differs-from-selection",
                  "Sec-WebSocket-Protocol in the response is not what select_subprotocol returned", {**wit, "got": got})
        # extensions: only permessage-deflate, only if offered and enabled, only offered parameters
        exts = [e for v in hd.get_all("Sec-WebSocket-Extensions") for e in ws.parse_extensions(v)]
        offers = [e for e in ws.parse_extensions(case["ext"][1] or "")]
        doff = [p for n, p in offers if n == "permessage-deflate"]
        if exts:
            ctx.count("server_extension_responses")
            ok = case["compress"] and bool(doff) and len(exts) == 1 and exts[0][0] == "permessage-deflate"
            ctx.check(ok, "server/extension-response-not-offered-or-not-enabled",
                      "extension response although permessage-deflate was not offered or compression is disabled", wit)
            if ok:
                rp = exts[0][1]

                def fits(offer):
                    for k, v in rp.items():
                        if k not in offer:
                            return False
                        if offer[k] is not None and offer[k] != v:
                            return False
                        if offer[k] is None and v is not None and not (k == "client_max_window_bits" and v.isdigit()
                                                                       and 8 <= int(v) <= 15):
                            return False
                    return True
                ctx.check(any(fits(o) for o in doff), "server/extension-parameters-not-offered",
                          "permessage-deflate response carries a parameter (value) the client did not offer",
                          {**wit, "response_params": rp})
        elif case["compress"] and doff and lab == "A":
            ctx.count("server_deflate_declined")
    bad = lm.uncaught()
    if labels.get("policy") == "U":
        # the *application* broke select_subprotocol's contract; what tornado logs then is not pinned
        ctx.count("unspecified_app_contract_breach")
    elif bad and labels["ext"] == "U" and any(r_.get("exc") == "AttributeError" for r_ in bad):
        ctx.check(False, "log/uncaught/server-handshake/invalid-deflate-parameters",
                  "an extension offer with invalid permessage-deflate parameters crashes the handshake "
                  "(AttributeError on the not-yet-detached stream): 500 + 'Uncaught exception' traceback",
                  {**wit, "records": bad[:2]})
    else:
        ctx.check(not bad, "log/uncaught/server-handshake/" + ("+".join(offdims) or "nominal"),
                  "handshake request produced an uncaught-exception log record", {**wit, "records": bad[:2]})
    return lab, offdims


# ---------------------------------------------------------------------------
# client-side execution

def accept_variant(kind, key, rng):
    good = ws.accept_for(key)
    if kind == "correct":
        return good
    if kind == "absent":
        return None
    if kind == "empty":
        return ""
    if kind == "random":
        return base64.b64encode(rng.randbytes(20)).decode()
    if kind == "other-key":
        return ws.accept_for(_key(rng))
    if kind == "lowercased":
        v = good.lower()
        return v if v != good else good.upper()
    if kind == "truncated":
        return good[:-2]
    if kind == "key-echoed":
        return key
    if kind == "unpadded":
        return good.rstrip("=")
    raise ValueError(kind)


async def run_client(case):
    rng = random.Random(repr(sorted((k, repr(v)) for k, v in case.items())))
    rec = ws_rig.Rec()
    kw = {}
    if case["offers"] is not None:
        kw["subprotocols"] = list(case["offers"])
    if case["compress"]:
        kw["compression_options"] = {}
    c = ws_rig.ClientSession(rec, **kw)
    try:
        c.start()
        req = await c.accept()
        if req is None:
            raise RuntimeError("client never connected")
        key = req.get("Sec-WebSocket-Key")
        acc = accept_variant(case["accept"][1], key, rng)
        lines = ["HTTP/1.1 " + case["status"][1]]
        if case["upgrade"][1] is not None:
            lines.append("Upgrade: " + case["upgrade"][1])
        if case["connection"][1] is not None:
            lines.append("Connection: " + case["connection"][1])
        if acc is not None:
            lines.append("Sec-WebSocket-Accept: " + acc)
        if case["proto"][1] is not None:
            lines.append("Sec-WebSocket-Protocol: " + case["proto"][1])
        if case["ext"] != "none":
            lines.append("Sec-WebSocket-Extensions: " + case["ext"])
        if not case["status"][1].startswith("101"):
            lines.append("Content-Length: 0")
        resp = ("\r\n".join(lines) + "\r\n\r\n").encode("latin-1")
        conn = await c.respond(resp)
        out = {"connected": conn is not None, "error": repr(c.error) if c.error else None,
               "selected": None, "response": lines,
               "request": {"key": key, "protocols": req.get("Sec-WebSocket-Protocol"),
                           "extensions": req.get("Sec-WebSocket-Extensions")}}
        if conn is not None:
            try:
                out["selected"] = conn.selected_subprotocol
            except Exception as e:
                out["selected"] = repr(e)
        return out
    finally:
        await c.close()


def judge_client(case, r, ctx, lm):
    labels = {"status": case["status"][0], "upgrade": case["upgrade"][0], "connection": case["connection"][0],
              "accept": case["accept"][0], "proto": case["proto"][0], "ext": ext_label(case["ext"], case["compress"])}
    lab = overall(labels.values())
    wit = {"labels": labels, "offered_subprotocols": case["offers"], "compression_offered": case["compress"],
           "response": r["response"], "request": r["request"], "connected": r["connected"], "error": r["error"],
           "python_O": bool(case.get("opt")), "selected_subprotocol": r["selected"]}
    if case.get("opt"):
        ctx.count("client_cases_under_O")
    if lab == "R":
        ctx.count("client_must_reject")
        bad = sorted(d for d, v in labels.items() if v == "R")
        for d in bad:          # every R dimension of an accepted response was not enforced
            # under python -O the checks that are `assert` statements vanish; keep that apart from unconditional gaps
            tag = "client[-O]" if case.get("opt") and d in ("upgrade", "connection", "accept") else "client"
            ctx.check(not r["connected"], "%s/accepted-although/%s" % (tag, d),
                      "websocket_connect succeeded on a response it must refuse (%s=%r%s)"
                      % (d, case[d][1] if d != "ext" else case["ext"], ", python -O" if tag != "client" else ""), wit)
    elif lab == "A":
        ctx.count("client_must_accept")
        ok = ctx.check(r["connected"], "client/rejected-valid-response", "valid handshake response refused by the client", wit)
        if ok:
            ctx.check(r["selected"] == case["proto"][1], "client/selected-subprotocol-differs",
                      "selected_subprotocol is not the value the server sent", wit)
    else:
        ctx.count("client_unspecified")
        ctx.count("unspecified_accepted" if r["connected"] else "unspecified_rejected")
    if r["connected"] and case["offers"] is not None and r["selected"] is not None:
        # safety half for every outcome: whatever was negotiated must have been offered
        if lab != "R" and labels["proto"] != "U":
            ctx.check(r["selected"] in case["offers"], "client/selected-subprotocol-not-offered",
                      "selected_subprotocol was never offered", wit)
    # a refusal is delivered as an exception through the HTTP client machinery, which logs it; only
    # handshakes that end in a connection (or must do so) are required to be silent
    if r["connected"] or lab == "A":
        bad = [x for x in lm.uncaught()]
        ctx.check(not bad, "log/uncaught/client-handshake", "accepted handshake produced an uncaught-exception log record",
                  {**wit, "records": bad[:2]})
    return lab, sorted(d for d, v in labels.items() if v != "A")


def run_case(case, ctx):
    with LogMon() as lm:
        if case["side"] == "server":
            r = vloop.run(run_server, case)
            lab, off = judge_server(case, r, ctx, lm)
        else:
            r = vloop.run(run_client, case)
            lab, off = judge_client(case, r, ctx, lm)
    nontriv = bool(off) or case.get("protocols") is not None or case.get("offers") is not None
    new = ctx.mark(case, nontriv)
    if new and lab == "R":
        ctx.sample({"side": case["side"], "label": lab, "off_nominal": off,
                    "case": {k: v for k, v in case.items() if k not in ("side",)}}, limit=5)
