"""C18 — native websocket_mask equals byte-wise XOR; rejects masks that are not 4 bytes.

Sanitizer + differential monitor.  Every shard rebuilds tornado/speedups.c of the
tree under test (ASan+UBSan build, plain -O2 build, and an ASan driver that runs the
same function body on malloc'ed buffers at every alignment offset with the buffer end
at the allocation end), runs it in a child process with the ASan runtime preloaded and
compares every result with an independent byte-wise XOR (bytes.translate per residue).
"""
from __future__ import annotations

import json
import os
import random
import shutil
import subprocess
import sys
import tempfile

from vf import core, san

PROP = "C18"
META = {
    "level": "exploration",
    "technique": "ASan/UBSan build of speedups.c + differential oracle (byte-wise XOR) over all lengths 0..4096 x 8 alignment offsets",
    "level_text": "The current speedups.c is rebuilt under AddressSanitizer+UBSan and plain -O2 and executed on every payload length 0..4096 (thorough: ..20000 and 2^20±k) with structured and random masks, through the Python API and through a driver that places input/output at all 8 alignment offsets with the buffer end on the allocation end; every result is compared with an independent byte-wise XOR, rejection of non-4-byte masks is checked, and the selector in tornado.util is checked under TORNADO_EXTENSION settings. Observed equality on executions, not a proof.",
    "level_note": "The 'proof for every length' half of the quantifier is outside runtime monitoring and is not attempted. UBSan 'alignment' is excluded from the gate (uint64_t* casts on unaligned pointers are ISO-C UB but unreachable through the Python API, which only passes bytes objects, and not part of the stated property). The driver replaces PyArg_ParseTuple/PyBytes_* by macros around an unmodified #include of speedups.c.",
    "design_ref": "DESIGN.md §4 C18, §2.7",
    "engine": "san",
}
RULE = ("cases are (binary, payload length, input offset, output offset, mask) calls; lengths enumerated "
        "exhaustively 0..4096, offsets 0..7 in the driver; non-trivial when length >= 1; distinct by "
        "(binary kind, length, offsets, mask index)")
FLOORS = {"quick": 20000, "thorough": 100000}
ASSUMPTIONS = ["clang 14 ASan/UBSan runtime detects out-of-bounds accesses adjacent to the malloc'ed buffers",
               "independent oracle: bytes.translate with a 256-entry XOR table per index residue mod 4"]
REQUIRED_COUNTERS = ["calls_asan_ext", "calls_plain_ext", "calls_driver", "reject_checks", "selector_checks"]
SHARD_TIMEOUT = {"quick": 300, "thorough": 3600}


def EXHAUSTIVE(tier):
    return "payload lengths 0..4096 x (driver) input offsets 0..7; mask lengths 0..8 for the rejection clause"


def shards(tier, seed):
    out = []
    hi = 4097 if tier == "quick" else 20001
    step = (hi + 3) // 4
    for kind in ("asan_ext", "plain_ext", "installed_ext", "driver"):
        for a in range(0, hi, step):
            out.append({"kind": kind, "lo": a, "hi": min(hi, a + step), "big": tier == "thorough" and a == 0})
    out.append({"kind": "selector"})
    return out


# ---------------------------------------------------------------------------
# oracle

_TABLES = {}


def xor_ref(mask: bytes, data: bytes) -> bytes:
    out = bytearray(len(data))
    for r in range(4):
        m = mask[r]
        t = _TABLES.get(m)
        if t is None:
            t = _TABLES[m] = bytes(b ^ m for b in range(256))
        out[r::4] = data[r::4].translate(t)
    return bytes(out)


REJECT_PAYLOAD_LENS = (0, 1, 3, 4, 7, 8, 9, 64, 70000)   # the mask-length check must not depend on the payload
MASKS = [b"\x00\x00\x00\x00", b"\xff\xff\xff\xff", b"\x01\x02\x03\x04", b"\x80\x00\x7f\xfe"]


def child_main(argv):
    """Runs inside the (possibly ASan-preloaded) child. Prints one JSON line."""
    kind, path, lo, hi, seed, big = argv[0], argv[1], int(argv[2]), int(argv[3]), int(argv[4]), argv[5] == "1"
    rng = random.Random(f"c18:{seed}:{kind}:{lo}")
    masks = MASKS + [bytes(rng.randrange(256) for _ in range(4)) for _ in range(3 if kind == "driver" else 4)]
    res = {"calls": 0, "mismatch": [], "reject_checks": 0, "reject_fail": [], "covered": []}
    lengths = list(range(lo, hi))
    if lo == 0:
        # "any length": a few payloads around and beyond 64 KiB / 1 MiB in every tier (size-dependent fast paths)
        for k in (1 << 16, 1 << 17, 1 << 20):
            lengths += [k - 1, k, k + 1, k + 31, k + 33]
    if big:
        for k in (1 << 16, 1 << 20):
            lengths += [k - 9, k - 1, k, k + 1, k + 7, k + 13]
        lengths += [(1 << 22) + 5, (1 << 24) + 3]
    pool = bytes(rng.randrange(256) for _ in range(8192))
    counter = bytes((i * 7 + 3) & 0xFF for i in range(256))

    def payload(n, style):
        if style == 0:
            reps = n // len(pool) + 2
            off = rng.randrange(len(pool))
            return (pool * reps)[off:off + n]
        if style == 1:
            return bytes([0xA5]) * n
        return (counter * (n // len(counter) + 1))[:n]

    if kind == "driver":
        import ctypes
        lib = ctypes.PyDLL(path)
        lib.vf_drive.argtypes = [ctypes.c_char_p, ctypes.c_ssize_t, ctypes.c_char_p, ctypes.c_ssize_t,
                                 ctypes.c_int, ctypes.c_int, ctypes.c_char_p]
        lib.vf_drive.restype = ctypes.c_int
        for n in lengths:
            out = ctypes.create_string_buffer(max(1, n))
            for in_off in range(8):
                out_off = (in_off * 3 + n) % 8 if n % 2 else 0
                mi = (n + in_off) % len(masks)
                mask = masks[mi]
                data = payload(n, (n + in_off) % 3)
                rc = lib.vf_drive(mask, 4, data, n, in_off, out_off, out)
                res["calls"] += 1
                got = out.raw[:n]
                if rc != 0 or got != xor_ref(mask, data):
                    if len(res["mismatch"]) < 5:
                        res["mismatch"].append({"len": n, "in_off": in_off, "out_off": out_off, "mask": mask.hex(),
                                                "rc": rc, "first_diff": _first_diff(got, xor_ref(mask, data))})
                res["covered"].append((n, in_off, out_off, mi))
        for ml in (0, 1, 2, 3, 5, 6, 7, 8):
            for pl in REJECT_PAYLOAD_LENS:
                out = ctypes.create_string_buffer(max(16, pl))
                rc = lib.vf_drive(bytes(range(ml)), ml, b"p" * pl, pl, 0, 0, out)
                res["reject_checks"] += 1
                if rc != 1:
                    res["reject_fail"].append({"mask_len": ml, "payload_len": pl, "rc": rc})
    else:
        mod = san.load_ext(path)
        f = mod.websocket_mask
        from tornado.util import _websocket_mask_python as pyf
        for n in lengths:
            for mi, mask in enumerate(masks):
                if n > 4096 and mi not in (2, 3, len(masks) - 1):
                    continue
                data = payload(n, (n + mi) % 3)
                got = f(mask, data)
                res["calls"] += 1
                want = xor_ref(mask, data)
                if got != want or type(got) is not bytes:
                    if len(res["mismatch"]) < 5:
                        res["mismatch"].append({"len": n, "mask": mask.hex(), "first_diff": _first_diff(got, want)})
                if n <= 600 and mi < 2 and pyf(mask, data) != want:
                    res["mismatch"].append({"len": n, "mask": mask.hex(), "python_impl_differs": True})
                res["covered"].append((n, 0, 0, mi))
        for ml in (0, 1, 2, 3, 5, 6, 7, 8):
            for pl in REJECT_PAYLOAD_LENS:
                res["reject_checks"] += 1
                try:
                    r = f(bytes(range(ml)), b"p" * pl)
                    res["reject_fail"].append({"mask_len": ml, "payload_len": pl, "returned": repr(r)[:40]})
                except ValueError:
                    pass
                except Exception as e:
                    res["reject_fail"].append({"mask_len": ml, "payload_len": pl, "raised": repr(e)})
    print("VFRESULT " + json.dumps(res))


def _first_diff(a, b):
    if len(a) != len(b):
        return {"len_got": len(a), "len_want": len(b)}
    for i, (x, y) in enumerate(zip(a, b)):
        if x != y:
            return {"index": i, "got": x, "want": y}
    return None


def run_shard(spec, ctx):
    kind = spec["kind"]
    if kind == "selector":
        return run_selector(ctx)
    tmp = tempfile.mkdtemp(prefix="vf-c18-")
    try:
        env = dict(os.environ)
        env["PYTHONPATH"] = core.VERIF + os.pathsep + env.get("PYTHONPATH", "")
        if kind == "installed_ext":
            import glob
            cands = glob.glob(os.path.join(core.REPO, "tornado", "speedups*.so"))
            if not cands:
                ctx.count("installed_ext_absent")
                ctx.mark(("installed-absent", spec["lo"]), False)
                return
            path = cands[0]
        else:
            try:
                path = san.build({"asan_ext": "asan", "plain_ext": "plain", "driver": "driver"}[kind], tmp)
            except RuntimeError as e:
                ctx.violation(f"build/{kind}-does-not-compile", "speedups.c no longer builds in the harness", str(e)[-800:])
                return
        if kind in ("asan_ext", "driver"):
            env["LD_PRELOAD"] = san.ASAN_RT
            env["ASAN_OPTIONS"] = "detect_leaks=0:halt_on_error=1:abort_on_error=0:exitcode=77:allocator_may_return_null=1:symbolize=0"
            env["UBSAN_OPTIONS"] = "halt_on_error=1:print_stacktrace=0:exitcode=78:symbolize=0"
            env["PYTHONMALLOC"] = "malloc"
        cmd = [core.PY, "-m", "vf.props.c18", "--child", kind, path, str(spec["lo"]), str(spec["hi"]),
               str(spec["seed"]), "1" if spec.get("big") else "0"]
        p = subprocess.run(cmd, env=env, cwd=core.VERIF, stdout=subprocess.PIPE, stderr=subprocess.PIPE, timeout=3000)
        out = p.stdout.decode("utf-8", "replace")
        err = p.stderr.decode("utf-8", "replace")
        line = [l for l in out.splitlines() if l.startswith("VFRESULT ")]
        san_report = "AddressSanitizer" in err or "runtime error:" in err or p.returncode in (77, 78)
        if san_report:
            what = "AddressSanitizer" if "AddressSanitizer" in err else "UndefinedBehaviorSanitizer"
            kindline = next((l for l in err.splitlines() if "ERROR: AddressSanitizer" in l or "runtime error:" in l), "")
            cls = "heap-buffer-overflow" if "heap-buffer-overflow" in kindline else ("ubsan" if "runtime error" in kindline else "other")
            ctx.violation(f"sanitizer/{what}/{cls}", f"{what} report while running websocket_mask ({kind})",
                          {"exit": p.returncode, "report": err[-3000:]})
            ctx.count("sanitizer_reports")
            return
        if p.returncode != 0 or not line:
            raise RuntimeError(f"child failed rc={p.returncode}: {err[-1500:]}")
        res = json.loads(line[-1][9:])
        ctx.evaluations += res["calls"]
        ctx.count("calls_" + kind, res["calls"])
        ctx.count("oracle_evals", res["calls"])
        ctx.count("reject_checks", res["reject_checks"])
        for m in res["mismatch"]:
            mech = "differs-from-bytewise-xor" if not m.get("python_impl_differs") else "python-fallback-differs-from-bytewise-xor"
            ctx.violation(f"{kind}/{mech}", "masking result differs from byte i XOR mask[i mod 4]", m, case=m)
        for m in res["reject_fail"]:
            ctx.violation(f"{kind}/mask-length-not-rejected", "a mask that is not 4 bytes was not rejected with ValueError", m, case=m)
        for c in res["covered"]:
            ctx.mark((kind,) + tuple(c), c[0] >= 1)
        ctx.sample({"binary": kind, "lengths": [spec["lo"], spec["hi"] - 1], "calls": res["calls"],
                    "example": res["covered"][len(res["covered"]) // 2] if res["covered"] else None})
    finally:
        shutil.rmtree(tmp, ignore_errors=True)


def run_selector(ctx):
    """tornado.util picks the native function when importable, the Python one under TORNADO_EXTENSION=0."""
    code = ("import sys; sys.path.insert(0, %r); import tornado.util as u\n"
            "try:\n import tornado.speedups as s; nat = s.websocket_mask\nexcept ImportError:\n nat = None\n"
            "print('SEL', 'native' if (nat is not None and u._websocket_mask is nat) else "
            "('python' if u._websocket_mask is u._websocket_mask_python else 'other'), nat is not None)") % core.REPO
    for envset, want in (({}, "native"), ({"TORNADO_EXTENSION": "0"}, "python"), ({"TORNADO_NO_EXTENSION": "1"}, "python")):
        env = {k: v for k, v in os.environ.items() if not k.startswith("TORNADO_")}
        env.update(envset)
        p = subprocess.run([core.PY, "-c", code], env=env, stdout=subprocess.PIPE, stderr=subprocess.PIPE, timeout=60)
        out = p.stdout.decode().split()
        ctx.count("selector_checks")
        ctx.evaluations += 1
        if len(out) != 3 or out[0] != "SEL":
            raise RuntimeError("selector probe failed: " + p.stderr.decode()[-500:])
        have_native = out[2] == "True"
        exp = want if (have_native or want == "python") else "python"
        if not have_native:
            ctx.count("native_extension_not_importable")
        if out[1] != exp:
            ctx.violation("selector/wrong-implementation-selected",
                          "tornado.util._websocket_mask is not the implementation the environment selects",
                          {"env": envset, "got": out[1], "want": exp})
        ctx.mark(("selector", tuple(sorted(envset))), False)


if __name__ == "__main__":
    if len(sys.argv) > 2 and sys.argv[1] == "--child":
        core.use_repo()
        child_main(sys.argv[2:])
