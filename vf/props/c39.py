"""C39 — PeriodicCallback stays on its grid, skips missed periods, never overlaps.

Two workloads on the real `tornado.ioloop.PeriodicCallback`:

(a) "drive": a constructed PeriodicCallback whose `_next_timeout` is seeded as
    `start()` does; `_update_next(now)` is called with generated clock readings
    (on time, +-1 ulp, late by fractions / exact multiples of the period, huge
    lateness, backward steps, repeats).  Every new deadline is judged with exact
    rational arithmetic on the float inputs; tolerances are counted in ulps of
    the largest operand, derived from the float operations the code executes
    (sub, div, mul, add per step; one division for ms -> s).
(b) "run": the callback really runs on the virtual loop (sync callbacks that
    consume virtual time, coroutine callbacks finishing before/after later
    ticks, raising callbacks, stop/start from outside at chosen instants incl.
    the instant of a tick, backward clock steps, jitter).  Deadlines are observed
    at `IOLoop.add_timeout` (public boundary), callback entry/exit by counters.
"""
from __future__ import annotations

import asyncio
import datetime
import math
import random
from fractions import Fraction as F

from vf import core, vloop
from vf.logmon import LogMon

core.use_repo()
from tornado.ioloop import IOLoop, PeriodicCallback  # noqa: E402

PROP = "C39"
META = {
    "level": "exploration",
    "technique": "rational-arithmetic oracle over executed float schedules + in-flight/stop counters on the virtual loop",
    "level_text": "Generated (period, start, clock sequence) cases drive the real _update_next; every deadline it produces is "
                  "checked with fractions.Fraction on the float inputs (strictly later than the previous one, integer multiple "
                  "of the period per step and globally on start+k*period, not before now, at most one period after a "
                  "non-backward reading) with tolerances counted in ulps from the operations executed. With jitter the grid "
                  "clauses do not apply (the statement's own exclusion) but the others do: later than the previous deadline, "
                  "not before now, at most period*(1+jitter/2) after a non-backward reading. Real runs on the "
                  "virtual loop check non-overlap of coroutine callbacks, no run after stop and a scheduled next run while running.",
    "level_note": "The 'exact rationals for the proof obligations' half of the quantifier is not attempted; the rational oracle "
                  "is applied to executed float cases only. The one-period-after-now clause is evaluated only for readings >= "
                  "the previously scheduled deadline (a reading below it is a backward clock step or an early timer, the "
                  "statement's own exclusion). Start times are <= 2**32 s (epoch scale), periods >= 1 us.",
    "design_ref": "DESIGN.md §4 C39",
    "engine": "oracle+vloop",
}
RULE = ("drive cases: (period from 1us..days incl. non-dyadic and timedelta, start small or epoch-scale, jitter, <=30 clock "
        "readings each chosen relative to the current deadline: on time, +-1ulp, late by fraction/exact multiple(+-1ulp)/huge, "
        "backward, repeat); run cases: (period, sync|coro callback, per-invocation duration in periods and raise flag, external "
        "stop/start/stop-at-the-tick/backward-step events, jitter; with jitter also invocations overrunning up to ~10 periods). Non-trivial: a drive case with a skipping (>=2 periods) or "
        "backward step, a run case with >=2 callback runs and (a slow invocation or an external event). Distinct by the case tuple.")
FLOORS = {"quick": 3000, "thorough": 200000}
ASSUMPTIONS = [
    "start times within [0, 2**32] seconds and periods >= 1 microsecond (so one period exceeds one ulp of the clock)",
    "start() is not called on an already running PeriodicCallback (unspecified)",
    "virtual loop: timers fire exactly at their asyncio deadline; the IOLoop clock is EPOCH + virtual time (+ injected steps)",
]
REQUIRED_COUNTERS = ["oracle_evals", "drive_steps", "grid_nonvacuous", "late_skips", "backward_steps",
                     "run_callbacks", "run_sched", "coro_slow_invocations", "stop_events",
                     "jitter_deadlines_checked", "jitter_late_skips", "run_jitter_late_skips"]

PERIODS_MS = [0.001, 0.0015, 0.01, 0.1, 1 / 3, 1.0, 2.5, 10.0, 100.0, 1000 / 3, 1000.0, 1234.5678,
              60000.0, 3600000.0, 86400000.0, 3 * 86400000.0]
STARTS = [0.0, 0.1, 1.0, 1000.3, 123456.789, 1.7e9, 1.7e9 + 0.1, 1700000000.123456, 2.0 ** 31 - 0.5,
          2.0 ** 31, 2.0 ** 32 - 1.0, 1.0e9]


def shards(tier, seed):
    out = []
    nd = 8 if tier == "quick" else 48
    per = 1600 if tier == "quick" else 28000       # drive cases per shard (~15 steps each)
    for j in range(nd):
        out.append({"kind": "drive", "n": per, "j": j})
    nr = 4 if tier == "quick" else 16
    perr = 240 if tier == "quick" else 6000
    for j in range(nr):
        out.append({"kind": "run", "n": perr, "j": j})
    return out


# ---------------------------------------------------------------------------
# generators

STEP_MODES = ["ontime", "ulp+", "ulp-", "frac", "mult", "mult+", "mult-", "huge", "back_frac", "back_mult",
              "repeat", "tiny"]


def gen_drive(rng):
    if rng.random() < 0.75:
        period = rng.choice(PERIODS_MS)
    else:
        period = 10 ** rng.uniform(-3, 8.5)
    td = rng.random() < 0.1 and period >= 0.001
    start = rng.choice(STARTS) if rng.random() < 0.6 else (
        rng.uniform(0, 1e6) if rng.random() < 0.5 else 1.7e9 + rng.uniform(0, 1e8))
    jitter = 0.0 if rng.random() < 0.85 else rng.choice([0.1, 0.5, 0.999, rng.random()])
    steps = []
    for _ in range(rng.randint(1, 30)):
        m = rng.choice(STEP_MODES)
        if m in ("frac", "back_frac"):
            steps.append((m, rng.choice([0.5, 0.25, 0.999999, 1e-9, rng.random()])))
        elif m in ("mult", "mult+", "mult-", "back_mult"):
            steps.append((m, rng.choice([1, 1, 2, 3, 7, 10, 1000, rng.randint(1, 10 ** 6)])))
        elif m == "huge":
            steps.append((m, rng.choice([1e3, 86400.0, 1e7, 3e8, rng.uniform(1, 1e9)])))
        else:
            steps.append((m, 0))
    return {"k": "drive", "period_ms": period, "td": td, "start": start, "jitter": jitter, "steps": steps}


DUR = [0.0, 0.0, 0.25, 0.5, 1.0, 1.5, 2.0, 2.25, 3.0]
EXT_T = [0.25, 0.5, 1.0, 1.25, 1.5, 2.0, 2.5, 3.0, 3.75, 4.0, 5.5, 6.0]


DUR_LONG = [0.0, 0.5, 1.5, 2.25, 3.0, 3.5, 4.75, 6.0, 7.5, 10.25]


def gen_run(rng, rng2):
    period = rng.choice([2.5, 10.0, 100.0, 1000 / 3, 1000.0, 0.1])
    kind = rng.choice(["sync", "coro", "coro"])
    n = rng.randint(1, 5)
    durs = [rng.choice(DUR) for _ in range(n)]
    raises = [rng.random() < 0.2 for _ in range(n)]
    ext = []
    for _ in range(rng.choice([0, 1, 1, 2, 3, 4])):
        act = rng.choice(["stop", "stop", "start", "stop_at_next", "back", "stop_start"])
        ext.append((rng.choice(EXT_T), act, rng.choice([0.5, 1.0, 2.5]) if act == "back" else 0))
    ext.sort(key=lambda e: e[0])
    jitter = 0.0 if rng.random() < 0.8 else rng.choice([0.1, 0.5, 0.9])
    horizon = rng.choice([8, 12])
    if jitter and rng2.random() < 0.6:
        # jitter combined with invocations that overrun several periods (drawn from a second stream so that the
        # other cases of the shard stay what they were)
        durs = [rng2.choice(DUR_LONG) for _ in range(rng2.randint(1, 4))]
        jitter = rng2.choice([0.1, 0.25, 0.5, 0.9, 1.0, round(rng2.uniform(0.05, 1.0), 3)])
        horizon = rng2.choice([16, 30])
    return {"k": "run", "period_ms": period, "kind": kind, "durs": durs, "raises": raises, "ext": ext,
            "jitter": jitter, "horizon": horizon}


def gen_cases(spec):
    rng = core.rng_for(spec["seed"], PROP, f"{spec['kind']}{spec['j']}")
    rng2 = core.rng_for(spec["seed"], PROP, f"{spec['kind']}{spec['j']}/extra")
    for _ in range(spec["n"]):
        yield gen_drive(rng) if spec["kind"] == "drive" else gen_run(rng, rng2)


def directed_cases():
    # exact on-time reading (floor(0)+1 vs ceil(0)), exact k*period lateness, backward step
    yield {"k": "drive", "period_ms": 100.0, "td": False, "start": 1.7e9, "jitter": 0.0,
           "steps": [("ontime", 0), ("mult", 2), ("back_frac", 0.5), ("repeat", 0), ("huge", 1e7)]}
    yield {"k": "drive", "period_ms": 0.001, "td": False, "start": 2.0 ** 32 - 1.0, "jitter": 0.0,
           "steps": [("ontime", 0), ("ulp-", 0), ("ulp+", 0), ("mult", 3)]}
    # coroutine slower than the period; stop exactly at a tick; raising callback keeps the schedule
    yield {"k": "run", "period_ms": 100.0, "kind": "coro", "durs": [2.25, 0.0], "raises": [False, True],
           "ext": [(6.0, "stop_at_next", 0)], "jitter": 0.0, "horizon": 12}
    yield {"k": "run", "period_ms": 100.0, "kind": "sync", "durs": [0.0], "raises": [True],
           "ext": [], "jitter": 0.0, "horizon": 8}
    # restart exactly at a tick: the timer has fired but the coroutine body has not started yet
    yield {"k": "run", "period_ms": 1000.0, "kind": "coro", "durs": [0.5, 0.0, 1.0], "raises": [False, False, False],
           "ext": [(1.0, "stop_start", 0)], "jitter": 0.0, "horizon": 12}
    # jitter with overruns of several periods: not before now, at most one (jittered) period after now
    yield {"k": "drive", "period_ms": 100.0, "td": False, "start": 1.7e9, "jitter": 0.5,
           "steps": [("mult", 7), ("frac", 0.5), ("mult+", 3), ("huge", 86400.0), ("mult", 1000), ("ontime", 0),
                     ("mult", 10), ("frac", 0.999999), ("mult-", 7), ("mult", 2)]}
    yield {"k": "run", "period_ms": 100.0, "kind": "sync", "durs": [7.5, 0.0, 4.75, 10.25], "raises": [False] * 4,
           "ext": [], "jitter": 0.9, "horizon": 30}
    yield {"k": "run", "period_ms": 1000 / 3, "kind": "coro", "durs": [3.5, 6.0, 2.25], "raises": [False, True, False],
           "ext": [], "jitter": 0.5, "horizon": 30}
    # restart while an invocation is still in flight
    yield {"k": "run", "period_ms": 100.0, "kind": "coro", "durs": [3.0], "raises": [False],
           "ext": [(1.5, "stop_start", 0)], "jitter": 0.0, "horizon": 12}


# ---------------------------------------------------------------------------
# oracle

class Grid:
    """Per start(): exact start, exact period, additions performed so far."""

    def __init__(self, start, period_ms):
        self.start = start
        self.P = F(period_ms) / 1000            # the period the caller asked for, exactly
        self.adds = 0
        self.maxmag = abs(start)


def check_deadline(ctx, g, o, c, n, jitter, where, wit):
    """o: previously scheduled deadline (or the start time), c: clock reading handed to the
    arithmetic, n: the new deadline.  All floats as the real code saw/produced them."""
    ctx.count("deadlines_checked")
    P = g.P
    w = dict(wit, prev=o.hex(), now=c.hex(), new=n.hex(), prev_f=o, now_f=c, new_f=n, period_s=float(P))
    ctx.check(n > o, f"{where}/deadline-not-later-than-previous",
              "a scheduled run time is not later than the previously scheduled one", w)
    if o <= c:
        ctx.count("readings_not_backward")
    else:
        ctx.count("readings_below_deadline_unspecified_upper_bound")
    if jitter:
        # The statement qualifies only the grid clause with "(without jitter)"; "not before the current time" and
        # "at most one period after the current time while the clock has not gone backwards" hold for jittered
        # schedules too.  The jittered period is period * (1 + jitter * (r - 0.5)) with r in [0, 1), i.e. at most
        # period * (1 + jitter/2): that is the weakest reading of "one period" and the bound gated here.
        ctx.count("jitter_deadlines_checked")
        if o <= c:
            u = F(math.ulp(max(abs(o), abs(n), abs(c))))
            Pmax = P * (1 + F(jitter) / 2)
            tol = 8 * u + Pmax / 2 ** 40
            late = (F(c) - F(o)) / P
            if late >= 2:
                ctx.count("jitter_late_skips")
                if where == "run":
                    ctx.count("run_jitter_late_skips")
            ctx.check(F(n) >= F(c) - tol, f"{where}/jitter/deadline-before-now",
                      "with jitter: the new deadline lies before the current time by more than rounding (missed periods "
                      "are bunched: the callback fires again immediately)", dict(w, jitter=jitter, late_periods=float(late)))
            ctx.check(F(n) <= F(c) + Pmax + tol, f"{where}/jitter/deadline-more-than-one-jittered-period-after-now",
                      "with jitter: clock did not go backwards, yet the new deadline is more than period*(1+jitter/2) "
                      "after the current time", dict(w, jitter=jitter, late_periods=float(late),
                                                    after_now_periods=float((F(n) - F(c)) / P)))
        return
    u_on = math.ulp(max(abs(o), abs(n)))
    u_all = math.ulp(max(abs(o), abs(n), abs(c)))
    d = F(n) - F(o)
    m = round(d / P)
    if m >= 2:
        ctx.count("late_skips")
    # per step: an integer (>=1) number of periods, within 4 ulp of the larger operand
    ctx.check(m >= 1 and abs(d - m * P) <= 4 * F(u_on), f"{where}/step-not-a-multiple-of-the-period",
              "new deadline minus previous deadline is not an integer multiple of the period within 4 ulp",
              dict(w, multiple=str(m), err_ulp=float(abs(d - m * P) / F(u_on))))
    if 4 * F(u_on) < P / 4:
        ctx.count("grid_nonvacuous")
    if o <= c:
        ctx.check(F(n) >= F(c) - 4 * F(u_all), f"{where}/deadline-before-now",
                  "new deadline lies before the current time by more than 4 ulp", w)
        ctx.check(F(n) <= F(c) + P + 4 * F(u_all), f"{where}/deadline-more-than-one-period-after-now",
                  "clock did not go backwards, yet the new deadline is more than one period after the current time", w)
        if F(n) > F(c) + P:
            ctx.count("upper_bound_within_rounding_only")
    # global grid: distance to start + K*period <= 2*(additions+1) ulp of the largest magnitude seen
    g.adds += 1
    g.maxmag = max(g.maxmag, abs(n), abs(o))
    tol = 2 * (g.adds + 1) * F(math.ulp(g.maxmag))
    off = F(n) - F(g.start)
    K = round(off / P)
    ctx.check(K >= 1 and abs(off - K * P) <= tol, f"{where}/deadline-off-the-grid",
              "deadline is not on start + k*period within 2*(additions+1) ulp",
              dict(w, start=g.start, k=str(K), adds=g.adds, err_ulp=float(abs(off - K * P) / F(math.ulp(g.maxmag)))))
    if tol < P / 4:
        ctx.count("global_grid_nonvacuous")


def _noop():
    return None


def run_drive(case, ctx):
    period = case["period_ms"]
    ct = datetime.timedelta(milliseconds=period) if case["td"] else period
    pc = PeriodicCallback(_noop, ct, jitter=case["jitter"])
    # timedelta periods are quantised to microseconds by datetime; the period the caller asked for is
    # then the timedelta's exact value
    if case["td"]:
        exact_ms = F(ct / datetime.timedelta(microseconds=1)) / 1000
        if exact_ms <= 0:
            ctx.count("td_period_rounds_to_zero_skipped")
            return
    else:
        exact_ms = F(period)
    start = case["start"]
    pc._next_timeout = start                      # as start() does with io_loop.time()
    g = Grid(start, exact_ms)
    Pf = float(g.P)
    prev_reading = start
    nontriv = False
    for i, (mode, a) in enumerate(case["steps"]):
        o = pc._next_timeout
        if mode == "ontime":
            c = o
        elif mode == "ulp+":
            c = math.nextafter(o, math.inf)
        elif mode == "ulp-":
            c = math.nextafter(o, -math.inf)
        elif mode == "frac":
            c = o + a * Pf
        elif mode == "mult":
            c = o + a * Pf
        elif mode == "mult+":
            c = math.nextafter(o + a * Pf, math.inf)
        elif mode == "mult-":
            c = math.nextafter(o + a * Pf, -math.inf)
        elif mode == "huge":
            c = o + a
        elif mode == "back_frac":
            c = o - a * Pf
        elif mode == "back_mult":
            c = o - a * Pf
        elif mode == "repeat":
            c = prev_reading
        else:  # tiny
            c = o + Pf * 1e-7
        if c > 2.0 ** 33 or c < -1.0:
            ctx.count("reading_out_of_scope_skipped")
            break
        if c < o:
            ctx.count("backward_steps")
            nontriv = True
        ctx.count("drive_steps")
        try:
            pc._update_next(c)
        except Exception as e:
            ctx.violation(f"drive/update-raises-{type(e).__name__}", "_update_next raised",
                          {"step": i, "mode": mode, "err": repr(e)})
            return
        n = pc._next_timeout
        before = ctx.counters.get("late_skips", 0)
        check_deadline(ctx, g, o, c, n, case["jitter"], "drive", {"step": i, "mode": mode, "period_ms": period})
        if ctx.counters.get("late_skips", 0) > before:
            nontriv = True
        prev_reading = c
    ctx.mark(("drive", period, case["td"], start, case["jitter"], tuple(case["steps"])), nontriv)
    if nontriv:
        ctx.sample({"kind": "drive", "period_ms": period, "start": start, "steps": case["steps"][:6]}, limit=2)


class Boom(Exception):
    pass


def run_run(case, ctx):
    period_ms = case["period_ms"]
    P = period_ms / 1000.0
    st = {"inflight": 0, "stopped": True, "gen": 0, "runs": 0, "seq": 0, "last_exit": -1, "last_sched": -1,
          "grid": None, "prev": None, "restart_inflight": False, "restart_at_tick": False, "entered_since_sched": True, "slow": 0, "raised": 0, "viol": False}

    async def main():
        io = IOLoop.current()
        vl = io.asyncio_loop
        offset = [0.0]
        io.time = lambda: vloop.EPOCH + vl.time() + offset[0]     # injectable clock steps
        pcbox = []

        orig_add_timeout = io.add_timeout

        def add_timeout(deadline, callback, *a, **kw):
            if pcbox and callback == pcbox[0]._run:
                st["seq"] += 1
                st["last_sched"] = st["seq"]
                ctx.count("run_sched")
                now = io.time()
                g = st["grid"]
                o = st["prev"] if st["prev"] is not None else g.start
                if st["restart_inflight"]:
                    # two schedule chains may be alive (see overlap mechanism below): only count
                    ctx.count("sched_after_restart_inflight_ungated")
                else:
                    check_deadline(ctx, g, o, now, deadline, case["jitter"], "run",
                                   {"period_ms": period_ms, "gen": st["gen"]})
                st["prev"] = deadline
                st["entered_since_sched"] = False
            return orig_add_timeout(deadline, callback, *a, **kw)

        io.add_timeout = add_timeout

        def enter():
            st["seq"] += 1
            st["entered_since_sched"] = True
            i = st["runs"]
            st["runs"] += 1
            ctx.count("run_callbacks")
            if st["stopped"]:
                ctx.violation("run/callback-ran-after-stop", "the callback was started after stop() returned",
                              {"t": io.time() - vloop.EPOCH, "run_index": i})
            st["inflight"] += 1
            if st["inflight"] > 1:
                if st["restart_inflight"] or st["restart_at_tick"]:
                    ctx.violation("run/overlap-after-stop-then-start",
                                  "after stop() then start() issued while an invocation from before the stop() was still "
                                  "running (or its timer had fired but its body not yet started) the callback is started "
                                  "while the previous invocation is unfinished: two schedule chains stay alive",
                                  {"t": io.time() - vloop.EPOCH, "run_index": i, "inflight": st["inflight"],
                                   "restart_while_inflight": st["restart_inflight"], "restart_at_tick": st["restart_at_tick"]})
                else:
                    ctx.violation("run/coroutine-callback-overlap",
                                  "coroutine callback started while its previous invocation was still running",
                                  {"t": io.time() - vloop.EPOCH, "run_index": i, "inflight": st["inflight"]})
            return i

        def leave():
            st["inflight"] -= 1
            st["seq"] += 1
            st["last_exit"] = st["seq"]

        def sync_cb():
            i = enter()
            try:
                d = case["durs"][i % len(case["durs"])]
                if d:
                    vl.advance_to(vl.time() + d * P)      # a slow synchronous callback
                    if d >= 1:
                        st["slow"] += 1
                if case["raises"][i % len(case["raises"])]:
                    st["raised"] += 1
                    raise Boom(f"boom-{i}")
            finally:
                leave()

        async def coro_cb():
            i = enter()
            try:
                d = case["durs"][i % len(case["durs"])]
                if d:
                    if d >= 1:
                        st["slow"] += 1
                        ctx.count("coro_slow_invocations")
                    await asyncio.sleep(d * P)
                if case["raises"][i % len(case["raises"])]:
                    st["raised"] += 1
                    raise Boom(f"boom-{i}")
            finally:
                leave()

        pc = PeriodicCallback(sync_cb if case["kind"] == "sync" else coro_cb, period_ms, jitter=case["jitter"])
        pcbox.append(pc)

        def do_start():
            if pc.is_running():
                ctx.count("start_while_running_skipped_unspecified")
                return
            if st["inflight"]:
                st["restart_inflight"] = True
                ctx.count("restart_while_invocation_inflight")
            if st["prev"] is not None and not st["entered_since_sched"] and st["prev"] <= io.time() + 4 * math.ulp(io.time()):
                # the last scheduled deadline has been reached but its invocation has not started: its timer may
                # already have fired (coroutine body pending) when stop() ran
                st["restart_at_tick"] = True
                ctx.count("restart_at_a_tick_instant")
            st["gen"] += 1
            st["stopped"] = False
            st["grid"] = Grid(io.time(), F(period_ms))
            st["prev"] = None
            pc.start()

        def do_stop():
            pc.stop()
            st["stopped"] = True
            ctx.count("stop_events")
            if st["inflight"]:
                ctx.count("stop_while_invocation_inflight")

        def ext_action(act, arg):
            if act == "stop":
                do_stop()
            elif act == "start":
                do_start()
            elif act == "stop_start":
                do_stop()
                do_start()
            elif act == "stop_at_next":
                # a timeout with exactly the periodic callback's own deadline: stop() lands between the timer
                # firing and the start of the callback body
                if pc.is_running():
                    ctx.count("stop_at_tick_scheduled")
                    orig_add_timeout(pc._next_timeout, do_stop)
            elif act == "back":
                offset[0] -= arg * P
                ctx.count("clock_stepped_back")

        do_start()
        for t, act, arg in case["ext"]:
            vl.call_later(t * P, ext_action, act, arg)
        await asyncio.sleep(case["horizon"] * P)
        # liveness half: a running PeriodicCallback with no invocation in flight has its next run scheduled
        if pc.is_running() and not st["stopped"] and st["inflight"] == 0 and not st["restart_inflight"]:
            ctx.check(st["last_sched"] > st["last_exit"], "run/running-but-no-next-run-scheduled",
                      "is_running() is true and no invocation is in flight, but no run was scheduled after the last "
                      "invocation ended (the schedule died)",
                      {"runs": st["runs"], "raised": st["raised"]})
        do_stop()
        runs_at_stop = st["runs"]
        await asyncio.sleep(4 * P + 4 * max(case["durs"]) * P)
        ctx.check(st["runs"] == runs_at_stop, "run/callback-ran-after-final-stop",
                  "callback invocations continued after stop()", {"before": runs_at_stop, "after": st["runs"]})

    with LogMon() as lm:
        try:
            vloop.run(main)
        except vloop.Quiescent:
            ctx.violation("run/harness-quiescent", "virtual loop went idle with the case still pending", {})
            return
        bad = [r for r in lm.uncaught() if "boom-" not in (r["exc_text"] or "")]
        ctx.check(not bad, "run/unexpected-error-log", "an error other than the callback's own exception was logged",
                  {"records": bad[:3]})
        if st["raised"]:
            ctx.count("raising_invocations", st["raised"])
    nontriv = st["runs"] >= 2 and (st["slow"] > 0 or bool(case["ext"]))
    ctx.mark(("run", period_ms, case["kind"], tuple(case["durs"]), tuple(case["raises"]), tuple(case["ext"]),
              case["jitter"], case["horizon"]), nontriv)
    if nontriv:
        ctx.sample({k: case[k] for k in ("period_ms", "kind", "durs", "raises", "ext", "jitter")}, limit=2)


def run_case(case, ctx):
    random.seed(repr(sorted(case.items())))       # jitter draws from the global RNG: keep replays deterministic
    if case["k"] == "drive":
        run_drive(case, ctx)
    else:
        run_run(case, ctx)
