"""C45 — LogFormatter.format never raises, returns str, and every LF is followed by indentation.

Records are built through the real logging.Logger.makeRecord; the formatter is the real
tornado.log.LogFormatter in several configurations (plain, default, forced ANSI colours by
harness-side patching of tornado.log._stderr_supports_color/curses as log_test does, custom
fmt with every documented key, fmt containing a newline, custom datefmt).  The oracle looks
only at the returned value.  A case is a small tuple of selectors plus a sub-seed from which
message/args/exception text are rebuilt deterministically (keeps cases printable and replayable).
"""
from __future__ import annotations

import logging
import random
import re
import sys

from vf import core

core.use_repo()
import tornado.log as tlog  # noqa: E402

PROP = "C45"
META = {
    "level": "exploration",
    "technique": "direct oracle on the formatter's return value over generated log records (messages, args, exc_info, exc_text, stack_info) x formatter configurations",
    "level_text": "LogRecords made by the real Logger.makeRecord with str/bytes messages (valid and invalid UTF-8, LF/CRLF/CR/Unicode line separators, NUL, lone surrogates, every kind of broken %-specifier), argument tuples/dicts that match or mismatch in count, type and kind, real raised-and-caught exceptions whose text carries newlines/bytes/undecodable data/chained causes, pre-set exc_text and stack_info are formatted twice by six LogFormatter configurations; the result must be a str in which every LF is followed by four spaces.",
    "level_note": "Only U+000A gates; CR, VT, FF, U+0085, U+2028/9 left unindented are counted as observations. Message/args objects are str/bytes/int/float/None/tuples/dicts (no objects with raising __str__/__repr__).",
    "design_ref": "DESIGN.md §4 C45",
    "engine": "oracle",
}
RULE = ("cases are (formatter configuration, level, message kind, args kind, exception kind, exc_text/stack_info flags, "
        "sub-seed); non-trivial if the record carries an LF somewhere (message, argument, exception text, exc_text, fmt) "
        "or its message formatting fails; distinct by the case tuple")
FLOORS = {"quick": 20000, "thorough": 800000}
ASSUMPTIONS = ["only LF (U+000A) is a newline character for gating",
               "message and argument objects have non-raising __str__/__repr__"]
REQUIRED_COUNTERS = ["oracle_evals", "lf_in_output", "bad_message_fallback", "with_exc_info", "bytes_messages",
                     "colored_outputs"]

LEVELS = [logging.DEBUG, logging.INFO, logging.WARNING, logging.ERROR, logging.CRITICAL, 25, 0, 99]
FULL_FMT = ("%(color)s[%(levelname)s %(levelno)d %(asctime)s %(name)s %(pathname)s %(filename)s %(module)s:%(lineno)d "
            "%(funcName)s %(created)f %(msecs)d %(relativeCreated)d %(thread)d %(threadName)s %(process)d]"
            "%(end_color)s %(message)s")


def _colored():
    saved = (tlog._stderr_supports_color, tlog.curses)
    tlog._stderr_supports_color = lambda: True
    tlog.curses = None
    try:
        return tlog.LogFormatter(color=True)
    finally:
        tlog._stderr_supports_color, tlog.curses = saved


FORMATTERS = [
    ("plain", lambda: tlog.LogFormatter(color=False)),
    ("default", lambda: tlog.LogFormatter()),
    ("ansi", _colored),
    ("fullfmt", lambda: tlog.LogFormatter(fmt=FULL_FMT, color=False)),
    ("fmt-with-lf", lambda: tlog.LogFormatter(fmt="%(levelname)s\n%(message)s\n", color=False)),
    ("datefmt", lambda: tlog.LogFormatter(datefmt="%Y-%m-%dT%H:%M:%S", style="%", color=False)),
]
_FMT_CACHE = {}


def formatter(i):
    if i not in _FMT_CACHE:
        _FMT_CACHE[i] = FORMATTERS[i][1]()
    return _FMT_CACHE[i]


PIECES = ["hello", "\n", "\n", "\r\n", "\r", "\n\n", " ", "%", "%%", "%s", "%d", "%r", "%(a)s", "%(b)d", "%5", "%z",
          "%c", "%*d", "%.2f", "%(", "\x00", "\u2028", "\u2029", "\x85", "\x0b", "\x0c", "\xe9", "\u4e2d",
          "\U0001f600", "\ud800", "\t", "[E 240101 00:00:00 x:1] forged", "Traceback (most recent call last):",
          "    indented", "\x1b[31m", "{}", "$x"]
BYTES_PIECES = [b"bytes", b"\n", b"\r\n", b"\xe9", b"\xff\xfe", b"caf\xc3\xa9", b"%s", b"%", b"\x00", b"\xed\xa0\x80"]


def gen_text(rng, lo=0, hi=6):
    return "".join(rng.choice(PIECES) for _ in range(rng.randint(lo, hi)))


def gen_bytes(rng, lo=0, hi=5):
    return b"".join(rng.choice(BYTES_PIECES) for _ in range(rng.randint(lo, hi)))


def gen_arg(rng):
    r = rng.random()
    if r < 0.3:
        return gen_text(rng, 0, 3)
    if r < 0.45:
        return gen_bytes(rng, 0, 3)
    if r < 0.65:
        return rng.choice([0, 1, -5, 10 ** 30, 1114112, 65])
    if r < 0.75:
        return rng.choice([1.5, float("inf"), float("nan")])
    if r < 0.85:
        return None
    if r < 0.93:
        return (gen_text(rng, 0, 2), 1)
    return {"k": gen_text(rng, 0, 2)}


class MultiLineError(Exception):
    def __str__(self):
        return "line one\nline two\n[E 240101 00:00:00 forged:1] entry"


def make_exc_info(kind, rng):
    """Really raise and catch, so the traceback objects are genuine."""
    try:
        try:
            if kind == 1:
                raise ValueError(gen_text(rng, 1, 5))
            if kind == 2:
                b"\xff\xfe caf\xe9".decode("utf-8")
            if kind == 3:
                raise MultiLineError()
            if kind == 4:
                raise KeyError(gen_text(rng, 1, 3))
            if kind == 5:
                raise OSError(2, gen_text(rng, 1, 3), "file\nname")
            if kind == 6:
                raise RuntimeError(gen_bytes(rng, 1, 4))
            if kind == 7:
                try:
                    raise ValueError("inner\ncause")
                except ValueError as inner:
                    raise RuntimeError(gen_text(rng, 0, 3)) from inner
            if kind == 8:
                eval(compile("def f(:\n  pass", gen_text(rng, 0, 2).replace("\x00", "") or "<s>", "exec"))
            if kind == 9:
                raise ExceptionGroup(gen_text(rng, 1, 2), [ValueError("a\nb"), TypeError(gen_text(rng, 0, 2))])
            if kind == 10:
                e = ValueError("noted")
                e.add_note(gen_text(rng, 1, 3))
                raise e
            raise SystemExit(gen_text(rng, 0, 2))
        except BaseException:
            return sys.exc_info()
    finally:
        pass


def shards(tier, seed):
    n = 48000 if tier == "quick" else 2000000
    k = 8 if tier == "quick" else 16
    return [{"n": n // k, "j": j} for j in range(k)]


def gen_cases(spec):
    rng = core.rng_for(spec["seed"], PROP, spec["j"])
    for _ in range(spec["n"]):
        yield (rng.randrange(len(FORMATTERS)), rng.choice(LEVELS),
               rng.choice(["str", "str", "str", "bytes", "fmt"]),
               rng.choice(["none", "none", "match", "mismatch", "dict", "onebytes", "emptytuple"]),
               rng.choice([0, 0, 0, 1, 2, 3, 4, 5, 6, 7, 8, 9, 10, 11]),
               rng.random() < 0.1, rng.random() < 0.1, rng.getrandbits(48))


def directed_cases():
    yield (0, logging.ERROR, "str", "none", 3, False, False, 1)
    yield (4, logging.INFO, "bytes", "mismatch", 2, True, True, 2)
    yield (2, logging.WARNING, "fmt", "dict", 7, False, False, 3)


_LOGGER = logging.Logger("vf.c45")
UNINDENTED_LF = re.compile(r"\n(?! {4})")
OTHER_BOUNDARY = re.compile("[\r\x0b\x0c\x85\u2028\u2029](?! {4})")


def build(case):
    fi, level, mkind, akind, ekind, preset_exc_text, stack, sub = case
    rng = random.Random(sub)
    if mkind == "bytes":
        msg = gen_bytes(rng, 0, 5)
    elif mkind == "fmt":
        msg = rng.choice(["%s", "%d", "%s %s", "%(a)s", "%(a)s %(b)d", "%s\n%s", "%5.2f", "%c", "%*d", "%r"]) + gen_text(rng, 0, 2)
    else:
        msg = gen_text(rng, 0, 6)
    if akind == "none":
        args = None
    elif akind == "emptytuple":
        args = ()
    elif akind == "match":
        n = len(re.findall(r"%[^%(]", msg)) if isinstance(msg, str) else 0
        args = tuple(gen_arg(rng) for _ in range(n))
    elif akind == "mismatch":
        args = tuple(gen_arg(rng) for _ in range(rng.randint(1, 3)))
    elif akind == "dict":
        args = ({"a": gen_arg(rng), "b": rng.choice([1, "x", None])},)
    else:
        args = (gen_bytes(rng, 0, 3),)
    exc_info = make_exc_info(ekind, rng) if ekind else None
    sinfo = "Stack (most recent call last):\n  File \"x.py\", line 1, in f\n" + gen_text(rng, 0, 2) if stack else None
    rec = _LOGGER.makeRecord("vf.c45." + rng.choice(["a", "b\nc", "\xe9"]), level, rng.choice(["/x/mod.py", "m\nod.py", ""]),
                             rng.choice([1, 0, 10 ** 9]), msg, args, exc_info, func=rng.choice([None, "f", "g\nh"]),
                             sinfo=sinfo)
    if preset_exc_text:
        rec.exc_text = rng.choice(["preset\ntext", "Traceback...\n  File\nValueError: x", gen_text(rng, 1, 4), "x"])
    return rec, msg, args


def _has_lf(x):
    if isinstance(x, str):
        return "\n" in x
    if isinstance(x, bytes):
        return b"\n" in x
    if isinstance(x, (tuple, list)):
        return any(_has_lf(v) for v in x)
    if isinstance(x, dict):
        return any(_has_lf(v) for v in x.values())
    return False


def run_case(case, ctx):
    rec, msg, args = build(case)
    f = formatter(case[0])
    if isinstance(msg, bytes):
        ctx.count("bytes_messages")
    if rec.exc_info:
        ctx.count("with_exc_info")
    describe = {"formatter": FORMATTERS[case[0]][0], "msg": ascii(msg), "args": ascii(args),
                "exc": ascii(rec.exc_info[1]) if rec.exc_info else None, "exc_text_preset": ascii(rec.exc_text),
                "level": case[1]}
    try:
        rec.getMessage()
        msg_fails = False
    except Exception:  # noqa: BLE001
        msg_fails = True
    nontrivial = msg_fails or _has_lf(msg) or _has_lf(args) or bool(rec.exc_info) or bool(rec.exc_text) or case[0] == 4
    new = ctx.mark(case, nontrivial)
    if new and nontrivial and ctx.evaluations % 1499 == 5:
        ctx.sample(describe)
    for attempt in (1, 2):   # the second call takes the cached-exc_text path
        ctx.count("oracle_evals")
        try:
            out = f.format(rec)
        except Exception as e:  # noqa: BLE001
            ctx.violation(f"format/raises-{type(e).__name__}", "LogFormatter.format raised",
                          dict(describe, attempt=attempt, error=ascii(e)))
            return
        if not isinstance(out, str):
            ctx.violation("format/returns-non-str", "LogFormatter.format did not return a str",
                          dict(describe, attempt=attempt, got=ascii(out)))
            return
        if "Bad message (" in out:
            ctx.count("bad_message_fallback")
        if "\x1b[" in out and case[0] == 2:
            ctx.count("colored_outputs")
        if "\n" in out:
            ctx.count("lf_in_output")
        m = UNINDENTED_LF.search(out)
        if m:
            if rec.exc_text and m.start() >= len(out.split("\n", 1)[0]) and not _has_lf(msg) and not _has_lf(args):
                where = "in-exception-text"
            elif rec.exc_text or rec.exc_info:
                where = "record-with-exception"
            else:
                where = "message-only"
            ctx.violation(f"format/lf-not-followed-by-indentation/{where}",
                          "a newline in the formatted entry is not followed by the 4-space indentation",
                          dict(describe, attempt=attempt, out=ascii(out)[:1500], at=m.start()))
            return
        if OTHER_BOUNDARY.search(out):
            ctx.count("other_line_boundaries_unindented_observed")
