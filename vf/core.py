"""Runner for the per-property runtime monitors.

A property module (vf/props/cNN.py) provides

    PROP        "C06"
    META        dict for MANIFEST generation (see tools/gen_manifest.py)
    RULE        text: how cases are generated and what makes one non-trivial
    FLOORS      {"quick": n, "thorough": m}  minimum distinct non-trivial cases
    ASSUMPTIONS [str, ...]
    shards(tier, seed) -> [spec, ...]          JSON-serialisable shard specs
    gen_cases(spec)    -> iterator of cases    (picklable python objects)
    run_case(case, ctx)                        executes one case on the real code
    (optional) run_shard(spec, ctx)            replaces the default loop
    (optional) finish_shard(spec, ctx)         called at the end of a shard

`ctx` is a Ctx: counters, distinct/non-trivial accounting, samples, violations.
Every shard runs in its own subprocess (never multiprocessing.Pool).  Verdicts
are three-valued: exit 0 held / exit 1 VIOLATION / exit 2 INCONCLUSIVE.
"""
from __future__ import annotations

import base64
import hashlib
import importlib
import json
import os
import pickle
import random
import subprocess
import sys
import tempfile
import time
import traceback
from concurrent.futures import ThreadPoolExecutor

VERIF = os.path.dirname(os.path.dirname(os.path.abspath(__file__)))
REPO = os.environ.get("VERIF_TORNADO") or "/repo"
PY = "/venv/bin/python"
LEVELS = {"exploration", "fault_enumeration", "model_checking", "proof",
          "translation_validation", "other"}


def use_repo():
    """Make `import tornado` resolve to the tree under test (default /repo)."""
    if REPO not in sys.path or sys.path[0] != REPO:
        sys.path.insert(0, REPO)
    os.environ.setdefault("TORNADO_VERIF", "1")


def rng_for(seed, prop, shard):
    return random.Random(f"{seed}:{prop}:{shard}")


def h64(obj) -> str:
    if isinstance(obj, (bytes, bytearray)):
        b = bytes(obj)
    elif isinstance(obj, str):
        b = obj.encode("utf-8", "surrogatepass")
    else:
        b = repr(obj).encode("utf-8", "surrogatepass")
    return hashlib.blake2b(b, digest_size=8).hexdigest()


def jsonable(o, depth=0):
    """Best-effort conversion of a case/witness to something json.dump accepts."""
    if depth > 8:
        return repr(o)[:200]
    if o is None or isinstance(o, (bool, int, str)):
        if isinstance(o, str):
            try:
                o.encode("utf-8")
            except UnicodeEncodeError:
                return o.encode("ascii", "backslashreplace").decode("ascii")
            return o if len(o) <= 2000 else o[:2000] + f"...(+{len(o) - 2000})"
        return o
    if isinstance(o, float):
        return o if o == o and abs(o) != float("inf") else repr(o)
    if isinstance(o, (bytes, bytearray, memoryview)):
        b = bytes(o)
        s = repr(b if len(b) <= 600 else b[:600])
        return s if len(b) <= 600 else s + f"...(+{len(b) - 600}B)"
    if isinstance(o, dict):
        return {str(k) if not isinstance(k, str) else k: jsonable(v, depth + 1)
                for k, v in list(o.items())[:200]}
    if isinstance(o, (list, tuple, set, frozenset)):
        seq = list(o)
        out = [jsonable(v, depth + 1) for v in seq[:200]]
        if len(seq) > 200:
            out.append(f"...(+{len(seq) - 200})")
        return out
    return repr(o)[:500]


class Ctx:
    """Per-shard accounting handed to run_case."""

    MAX_VIOL = 40

    def __init__(self, prop, spec, tier, seed):
        self.prop = prop
        self.spec = spec
        self.tier = tier
        self.seed = seed
        self.counters = {}
        self.nontrivial = set()
        self.distinct = set()
        self.samples = []
        self.violations = []
        self.evaluations = 0
        self.current_case = None
        self.notes = set()
        self.sets = {}

    # --- accounting -----------------------------------------------------
    def count(self, key, n=1):
        self.counters[key] = self.counters.get(key, 0) + n

    def seen(self, setname, item):
        """Distinct-value accounting (e.g. interleavings, oracle branches)."""
        self.sets.setdefault(setname, set()).add(h64(item))

    def mark(self, canonical, nontrivial=True):
        """Register a case by canonical form; returns True if new."""
        h = h64(canonical)
        new = h not in self.distinct
        self.distinct.add(h)
        if nontrivial:
            self.nontrivial.add(h)
        return new

    def sample(self, obj, limit=4):
        if len(self.samples) < limit:
            self.samples.append(jsonable(obj))

    def note(self, text):
        self.notes.add(text)

    # --- verdicts ---------------------------------------------------------
    def violation(self, mechanism, what, witness=None, case=None):
        """Record a violation. `mechanism` is a stable classifier of the
        *shape* of the witness (never a hash or random value)."""
        self.count("violations_raw")
        per = self.counters.get("viol:" + mechanism, 0)
        self.counters["viol:" + mechanism] = per + 1
        if per >= 3 or len(self.violations) >= self.MAX_VIOL:
            return
        c = case if case is not None else self.current_case
        try:
            pk = base64.b64encode(pickle.dumps(c)).decode()
        except Exception:
            pk = None
        self.violations.append({
            "mechanism": mechanism, "what": what,
            "witness": jsonable(witness), "case": jsonable(c),
            "case_pickle": pk, "spec": self.spec,
        })

    def check(self, cond, mechanism, what, witness=None):
        self.count("oracle_evals")
        if not cond:
            self.violation(mechanism, what, witness)
        return cond

    def result(self):
        return {
            "counters": self.counters, "evaluations": self.evaluations,
            "nontrivial": sorted(self.nontrivial),
            "distinct_n": len(self.distinct),
            "samples": self.samples, "violations": self.violations,
            "notes": sorted(self.notes),
            "sets": {k: sorted(v) for k, v in self.sets.items()},
        }


def load_module(prop):
    use_repo()
    return importlib.import_module(f"vf.props.{prop.lower()}")


# -------------------------------------------------------------------------
# worker side

def worker_main(prop, spec_path, out_path):
    import faulthandler
    faulthandler.enable()
    with open(spec_path) as f:
        job = json.load(f)
    spec, tier, seed = job["spec"], job["tier"], job["seed"]
    mod = load_module(prop)
    ctx = Ctx(prop, spec, tier, seed)
    t0 = time.time()
    err = None
    try:
        if hasattr(mod, "run_shard"):
            mod.run_shard(spec, ctx)
        else:
            budget = spec.get("wall_budget")
            import itertools
            directed = []
            if spec.get("shard", 0) == 0 and hasattr(mod, "directed_cases"):
                directed = list(mod.directed_cases())
                ctx.count("directed_cases", len(directed))
            for case in itertools.chain(directed, mod.gen_cases(spec)):
                ctx.current_case = case
                ctx.evaluations += 1
                mod.run_case(case, ctx)
                if budget and time.time() - t0 > budget:
                    ctx.count("budget_stops")
                    break
            ctx.current_case = None
        if hasattr(mod, "finish_shard"):
            mod.finish_shard(spec, ctx)
    except BaseException:
        err = traceback.format_exc()
    res = ctx.result()
    res["harness_error"] = err
    res["last_case"] = jsonable(ctx.current_case)
    res["wall"] = time.time() - t0
    with open(out_path, "w") as f:
        json.dump(res, f)


def replay_main(prop, path):
    with open(path) as f:
        rep = json.load(f)
    mod = load_module(prop)
    ctx = Ctx(prop, rep.get("spec") or {}, "quick", rep.get("seed", 0))
    case = pickle.loads(base64.b64decode(rep["case_pickle"]))
    ctx.current_case = case
    ctx.evaluations = 1
    print("replaying case:", json.dumps(jsonable(case))[:2000])
    mod.run_case(case, ctx)
    if hasattr(mod, "finish_shard"):
        mod.finish_shard(ctx.spec, ctx)
    for v in ctx.violations:
        print("mechanism:", v["mechanism"])
        print("what:", v["what"])
        print("witness:", json.dumps(v["witness"], indent=1)[:4000])
    if ctx.violations:
        print(f"VIOLATION property={prop} replay={path}")
        return 1
    print("no violation on replay")
    return 0


# -------------------------------------------------------------------------
# driver side

# Thorough tier: the module's shard list is generated for several derived seeds (the random parts explore
# different cases; exhaustively enumerated parts repeat and are de-duplicated by the distinct-case hashes).
# Factors were sized from measured single-pass thorough wall times so that a thorough run takes ~3-6 min on
# 16 cores; modules whose thorough tier is dominated by exhaustive enumeration keep factor 1.
THOROUGH_REPEATS = {"C02": 6, "C03": 6, "C04": 5, "C09": 2, "C11": 4, "C12": 3, "C14": 3, "C15": 3, "C16": 4,
                    "C17": 3, "C19": 3, "C20": 3, "C21": 3, "C22": 6, "C23": 5, "C24": 4, "C25": 4, "C26": 4,
                    "C27": 3, "C28": 5, "C29": 4, "C30": 4, "C31": 4, "C32": 4, "C36": 4, "C40": 3, "C42": 3,
                    "C43": 4, "C44": 4, "C45": 5, "C46": 6, "C47": 3, "C48": 6}


def load_known(prop):
    known = {}
    p = os.path.join(VERIF, "known_findings.jsonl")
    if os.path.exists(p):
        for line in open(p):
            line = line.strip()
            if not line or line.startswith("#") or line.startswith("fixed:"):
                continue
            try:
                d = json.loads(line)
            except ValueError:
                continue
            if d.get("property") == prop and d.get("status", "known") == "known":
                known[d["mechanism"]] = d
    return known


def _run_one(prop, spec, tier, seed, idx, tmpdir, timeout):
    sp = os.path.join(tmpdir, f"spec{idx}.json")
    op = os.path.join(tmpdir, f"out{idx}.json")
    with open(sp, "w") as f:
        json.dump({"spec": spec, "tier": tier, "seed": seed}, f)
    env = dict(os.environ)
    env["PYTHONHASHSEED"] = "0"
    env["PYTHONPATH"] = VERIF + os.pathsep + env.get("PYTHONPATH", "")
    env.setdefault("TORNADO_VERIF", "1")
    env.update(spec.get("env") or {})
    cmd = [PY] + list(spec.get("pyflags") or []) + ["-m", "vf.core", "--worker", prop, sp, op]
    t0 = time.time()
    try:
        p = subprocess.run(cmd, env=env, cwd=VERIF, timeout=timeout,
                           stdout=subprocess.PIPE, stderr=subprocess.STDOUT)
        rc, out = p.returncode, p.stdout.decode("utf-8", "replace")
    except subprocess.TimeoutExpired as e:
        rc, out = "timeout", (e.stdout or b"").decode("utf-8", "replace")
    res = None
    if os.path.exists(op):
        try:
            res = json.load(open(op))
        except ValueError:
            res = None
    return {"idx": idx, "rc": rc, "out": out[-6000:], "res": res,
            "wall": time.time() - t0, "spec": spec}


def main_check(prop, tier, seed, jobs=None):
    t0 = time.time()
    mod = load_module(prop)
    reps = THOROUGH_REPEATS.get(prop, 1) if tier == "thorough" else 1
    reps = int(os.environ.get("VERIF_THOROUGH_REPEATS") or reps)
    specs = []
    for k in range(reps):
        sk = seed if k == 0 else seed + 7919 * k
        for s in mod.shards(tier, sk):
            s.setdefault("seed", sk)
            if k and s.get("shard") is not None:
                s["shard"] = s["shard"] + 100000 * k
            specs.append(s)
    for i, s in enumerate(specs):
        s.setdefault("shard", i)
        s.setdefault("seed", seed)
        s.setdefault("tier", tier)
    timeout = getattr(mod, "SHARD_TIMEOUT", {"quick": 240, "thorough": 3600})[tier]
    jobs = jobs or int(os.environ.get("VERIF_JOBS", "16"))
    tmpdir = tempfile.mkdtemp(prefix=f"vf-{prop}-")
    try:
        with ThreadPoolExecutor(max_workers=min(jobs, max(1, len(specs)))) as ex:
            futs = [ex.submit(_run_one, prop, s, tier, seed, i, tmpdir, timeout)
                    for i, s in enumerate(specs)]
            results = [f.result() for f in futs]
    finally:
        import shutil
        shutil.rmtree(tmpdir, ignore_errors=True)

    counters, nontriv, samples, viols, notes = {}, set(), [], [], set()
    sets = {}
    evaluations = distinct_n = 0
    broken = []
    for r in results:
        res = r["res"]
        if r["rc"] != 0 or res is None or res.get("harness_error"):
            broken.append(r)
        if res is None:
            continue
        for k, v in res["counters"].items():
            counters[k] = counters.get(k, 0) + v
        nontriv.update(res["nontrivial"])
        distinct_n += res["distinct_n"]
        evaluations += res["evaluations"]
        for s in res["samples"]:
            if len(samples) < 6:
                samples.append(s)
        notes.update(res.get("notes", []))
        for k, v in res.get("sets", {}).items():
            sets.setdefault(k, set()).update(v)
        for v in res["violations"]:
            v["shard"] = r["idx"]
            viols.append(v)

    known = load_known(prop)
    known_hit, new = {}, []
    for v in viols:
        if v["mechanism"] in known:
            known_hit.setdefault(v["mechanism"], v)
        else:
            new.append(v)
    # counts of raw violations per mechanism (ctx caps stored witnesses)
    mech_counts = {k[5:]: n for k, n in counters.items() if k.startswith("viol:")}

    os.makedirs(os.path.join(VERIF, "evidence"), exist_ok=True)
    os.makedirs(os.path.join(VERIF, "replays"), exist_ok=True)
    level = mod.META["level"]
    floors = getattr(mod, "FLOORS", {"quick": 2, "thorough": 2})
    reasons = []
    if broken:
        for r in broken[:3]:
            why = r["rc"] if r["rc"] != 0 else "harness_error"
            tail = (r["res"] or {}).get("harness_error") or r["out"]
            reasons.append(f"shard {r['idx']} failed ({why}): {tail[-1500:]}")
    if len(nontriv) < max(2, floors.get(tier, 2)):
        reasons.append(f"only {len(nontriv)} distinct non-trivial cases (< floor {floors.get(tier)})")
    need = getattr(mod, "REQUIRED_COUNTERS", [])
    for k in need:
        if counters.get(k, 0) == 0:
            reasons.append(f"deciding monitor counter '{k}' is zero")

    cov = {
        "evaluations": int(evaluations),
        "distinct_nontrivial": len(nontriv),
        "rule": mod.RULE,
        "samples": samples or ["<none>"],
        "distinct_cases": distinct_n,
        "shards": len(specs),
        "seed_repeats": reps,
        "monitor_counters": {k: v for k, v in sorted(counters.items())
                             if not k.startswith("viol:")},
        "distinct_sets": {k: len(v) for k, v in sets.items()},
        "violations_by_mechanism": mech_counts,
        "known_findings_hit": sorted(known_hit),
        "notes": sorted(notes),
    }
    if getattr(mod, "EXHAUSTIVE", None):
        ex = mod.EXHAUSTIVE(tier) if callable(mod.EXHAUSTIVE) else mod.EXHAUSTIVE
        if ex:
            cov["exhaustive"] = True
            cov["exhaustive_scope"] = ex if isinstance(ex, str) else ""
    if level == "other":
        cov["explanation"] = mod.META.get("level_text", "")
    if reasons:
        cov["inconclusive_reasons"] = reasons
    ev = {
        "property_id": prop, "tier": tier, "seed": int(seed), "level": level,
        "coverage": cov, "assumptions": list(getattr(mod, "ASSUMPTIONS", [])),
        "wall_s": round(time.time() - t0, 2), "violations": len(new),
    }
    evpath = os.path.join(VERIF, "evidence", f"{prop}.json")
    if not os.environ.get("VERIF_NO_EVIDENCE"):  # mutant runs must not overwrite real evidence
        with open(evpath, "w") as f:
            json.dump(ev, f, indent=1, sort_keys=True)
            f.write("\n")

    print(f"[{prop}] tier={tier} seed={seed} shards={len(specs)} evaluations={evaluations} "
          f"distinct_nontrivial={len(nontriv)} wall={ev['wall_s']}s")
    interesting = {k: v for k, v in sorted(counters.items()) if not k.startswith("viol:")}
    print(f"[{prop}] counters: {json.dumps(interesting)[:1500]}")
    for m, v in sorted(known_hit.items()):
        print(f"KNOWN-FINDING: property={prop} {m}: {known[m].get('what', v['what'])} "
              f"(seen {mech_counts.get(m, 1)}x this run)")
    if new:
        seen_m = set()
        n = 0
        for v in new:
            if v["mechanism"] in seen_m or n >= 12:
                continue
            seen_m.add(v["mechanism"])
            n += 1
            rp = os.path.join(VERIF, "replays", f"{prop}-s{seed}-{tier}-{n}.json")
            v2 = dict(v)
            v2.update({"property": prop, "seed": seed, "tier": tier})
            with open(rp, "w") as f:
                json.dump(v2, f, indent=1)
            print(f"[{prop}] mechanism={v['mechanism']} ({mech_counts.get(v['mechanism'], 1)}x) what={v['what']}")
            print(f"VIOLATION property={prop} replay={os.path.relpath(rp, VERIF)}")
        return 1
    if reasons:
        for r in reasons:
            print(f"INCONCLUSIVE property={prop} reason={r}")
        return 2
    print(f"[{prop}] held on everything observed")
    return 0


if __name__ == "__main__":
    if len(sys.argv) >= 5 and sys.argv[1] == "--worker":
        worker_main(sys.argv[2], sys.argv[3], sys.argv[4])
        sys.exit(0)
    raise SystemExit("use ./check")
