"""Log records as an observation channel (DESIGN §2.5)."""
from __future__ import annotations

import asyncio
import logging

LOGGERS = ("tornado.application", "tornado.general", "tornado.access", "asyncio")


class LogMon(logging.Handler):
    """with LogMon() as lm: ...; lm.records / lm.errors() / lm.tracebacks()"""

    def __init__(self, level=logging.DEBUG):
        super().__init__(level)
        self.records = []
        self.loop_exceptions = []
        self._saved = []

    def emit(self, record):
        try:
            msg = record.getMessage()
        except Exception as e:  # pragma: no cover
            msg = f"<unformattable {e!r}> {record.msg!r}"
        exc = None
        if record.exc_info and record.exc_info[0] is not None:
            exc = record.exc_info[0].__name__
        self.records.append({"logger": record.name, "level": record.levelname,
                             "msg": msg[:800], "exc": exc,
                             "exc_text": repr(record.exc_info[1])[:300] if exc else None})

    def __enter__(self):
        for name in LOGGERS:
            lg = logging.getLogger(name)
            self._saved.append((lg, lg.level, lg.propagate, list(lg.handlers)))
            lg.handlers = [self]
            lg.setLevel(logging.DEBUG)
            lg.propagate = False
        return self

    def __exit__(self, *a):
        for lg, lvl, prop, handlers in self._saved:
            lg.handlers = handlers
            lg.setLevel(lvl)
            lg.propagate = prop
        self._saved = []

    def attach_loop(self, loop: asyncio.AbstractEventLoop):
        def handler(loop, context):
            e = context.get("exception")
            self.loop_exceptions.append({"message": context.get("message"),
                                         "exception": repr(e)[:300]})
            self.records.append({"logger": "asyncio", "level": "ERROR",
                                 "msg": str(context.get("message"))[:800],
                                 "exc": type(e).__name__ if e is not None else None,
                                 "exc_text": repr(e)[:300]})
        loop.set_exception_handler(handler)

    # --- queries ---------------------------------------------------------
    def errors(self):
        return [r for r in self.records if r["level"] in ("ERROR", "CRITICAL")]

    def tracebacks(self):
        """Records that carry an exception traceback (uncaught-error reports)."""
        return [r for r in self.records if r["exc"] is not None]

    def matching(self, *needles):
        return [r for r in self.records if any(n in r["msg"] for n in needles)]

    def uncaught(self):
        return [r for r in self.records
                if r["level"] in ("ERROR", "CRITICAL") and (
                    r["exc"] is not None or any(n in r["msg"] for n in (
                        "Uncaught exception", "Exception in callback",
                        "never retrieved", "was destroyed but it is pending",
                        "InvalidStateError", "Exception after Future was cancelled")))]
