"""Virtual-time asyncio loop + Tornado IOLoop on top of it (DESIGN §2.1).

VSelector.select(timeout): poll the real selector with timeout 0; if nothing is
ready and a timer is scheduled, jump the clock *exactly* to the earliest
TimerHandle._when; if nothing is scheduled at all the program is quiescent
(Quiescent is raised out of run_until_complete -> deadlock witness).

Sound only for single-threaded workloads whose peers all live in the same loop
and talk over AF_UNIX socketpairs (send makes data readable synchronously).
"""
from __future__ import annotations

import asyncio
import gc
import selectors

from vf import core

core.use_repo()

EPOCH = 1.7e9


class Quiescent(BaseException):
    """Raised when the loop has no ready callbacks, no ready fds and no timers."""


class VSelector(selectors.DefaultSelector):
    loop = None

    def select(self, timeout=None):
        ev = super().select(0)
        if ev:
            return ev
        loop = self.loop
        if loop is None:
            return ev
        if timeout is not None and timeout <= 0:
            return ev
        # nothing ready: jump to the earliest live timer
        sched = loop._scheduled
        while sched and sched[0]._cancelled:
            import heapq
            h = heapq.heappop(sched)
            h._scheduled = False
            loop._timer_cancelled_count -= 1
        if sched:
            when = sched[0]._when
            if when > loop._vnow:
                loop._vnow = when
                loop.jumps += 1
            return ev
        if loop.raise_on_quiescent:
            raise Quiescent()
        return ev


class VLoop(asyncio.SelectorEventLoop):
    def __init__(self):
        sel = VSelector()
        self._vnow = 0.0
        self.jumps = 0
        self.raise_on_quiescent = True
        self._clock_resolution_override = 1e-9
        super().__init__(sel)
        sel.loop = self
        self._clock_resolution = 1e-9

    def time(self):
        return self._vnow

    def advance_to(self, t):
        if t > self._vnow:
            self._vnow = t


def make_ioloop(make_current=False):
    """Returns (ioloop, vloop): a tornado AsyncIOLoop whose time() is epoch-scale."""
    from tornado.platform.asyncio import AsyncIOLoop

    class VIOLoop(AsyncIOLoop):
        def time(self):
            return EPOCH + self.asyncio_loop.time()

    vl = VLoop()
    io = VIOLoop(asyncio_loop=vl, make_current=make_current)
    return io, vl


async def settle(n=1):
    """Return only after every ready callback / ready fd has been processed."""
    for _ in range(n):
        await asyncio.sleep(1e-6)


class PendingAtQuiescence(Exception):
    pass


def run(coro_fn, *args, collect=True, debug=False):
    """Run `await coro_fn(*args)` on a fresh virtual loop. Returns its result.
    Raises Quiescent if the loop goes idle with the coroutine still pending
    (structural deadlock witness). The loop is closed afterwards."""
    vl = VLoop()
    vl.set_debug(debug)
    asyncio.set_event_loop(vl)
    from tornado.platform.asyncio import AsyncIOLoop

    class VIOLoop(AsyncIOLoop):
        def time(self):
            return EPOCH + self.asyncio_loop.time()

    io = VIOLoop(asyncio_loop=vl, make_current=False)
    try:
        return vl.run_until_complete(coro_fn(*args))
    finally:
        try:
            vl.raise_on_quiescent = False
            # cancel leftovers so nothing leaks into the next case
            pend = [t for t in asyncio.all_tasks(vl) if not t.done()]
            for t in pend:
                t.cancel()
            if pend:
                try:
                    vl.run_until_complete(asyncio.gather(*pend, return_exceptions=True))
                except BaseException:
                    pass
            try:
                vl.run_until_complete(vl.shutdown_asyncgens())
            except BaseException:
                pass
        finally:
            try:
                io.close(all_fds=False)
            except Exception:
                try:
                    vl.close()
                except Exception:
                    pass
            asyncio.set_event_loop(None)
            if collect:
                gc.collect()
