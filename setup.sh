#!/bin/sh
# Offline setup: optional contract libraries beside the repo's interpreter, byte-compile the framework.
set -e
cd "$(dirname "$0")"
if [ ! -d .deps/icontract ]; then
  /venv/bin/pip install -q --no-index --find-links /opt/veriftools/wheels --target .deps icontract >/dev/null 2>&1 || echo "icontract not installed (optional)"
fi
/venv/bin/python -m compileall -q vf >/dev/null
command -v clang >/dev/null || echo "warning: clang missing (C18 sanitizer build)"
echo setup ok
