#!/bin/sh
# tools/applyfix.sh <fix-name>... : apply /verif/fixes/<name>.patch in the scratch worktree /tmp/fixwt,
# run the repository's full test-suite (hooks guard off), commit with <name>.msg when it passes.
# Tests that fail in the parallel run are re-run serially (load-induced timing flakes on a busy box).
cd /tmp/fixwt || exit 1
for n in "$@"; do
  p=/verif/fixes/$n.patch; m=/verif/fixes/$n.msg
  if ! git apply --index "$p" 2>/tmp/applyfix.err; then
    if ! patch -p1 -s --no-backup-if-mismatch < "$p" >/tmp/applyfix.err 2>&1; then echo "$n: DOES NOT APPLY: $(head -3 /tmp/applyfix.err)"; git checkout -q -- . ; continue; fi
    git add -A
  fi
  nice -n -15 env -u TORNADO_VERIF /venv/bin/python -m pytest -q -rf -p no:cacheprovider --timeout=900 --continue-on-collection-errors -n ${NJ:-8} > /tmp/applyfix.out 2>&1
  ok=0
  if tail -3 /tmp/applyfix.out | grep -q "1171 passed" && ! tail -3 /tmp/applyfix.out | grep -q failed; then ok=1; else
    failed=$(grep '^FAILED ' /tmp/applyfix.out | sed 's/^FAILED \([^ ]*\).*/\1/' | sort -u)
    if [ -n "$failed" ] && nice -n -15 env -u TORNADO_VERIF /venv/bin/python -m pytest -q -p no:cacheprovider --timeout=900 $failed > /tmp/applyfix.out2 2>&1; then
      ok=1; echo "$n: $(echo "$failed" | wc -l) tests failed under load and passed serially"
    else echo "$n: TESTS FAILED: $(tail -15 /tmp/applyfix.out2 2>/dev/null | head -12)"; fi
  fi
  if [ $ok = 1 ]; then git commit -q -F "$m" && echo "$n: committed $(git rev-parse --short HEAD)"; else git reset -q --hard HEAD; fi
done
