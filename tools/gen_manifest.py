#!/venv/bin/python
"""Regenerates MANIFEST.json from the META of every vf/props/cNN.py that exists."""
import importlib, json, os, sys
HERE = os.path.dirname(os.path.dirname(os.path.abspath(__file__)))
sys.path.insert(0, HERE)
from vf import core
core.use_repo()
props = [json.loads(l) for l in open(os.path.join(HERE, "properties.jsonl"))]
BASE = "cd /repo && /venv/bin/python -m pytest -ra -q -p no:cacheprovider --timeout=900 --continue-on-collection-errors"
checks, na, engines = [], [], {}
hooks_commits = [l.strip() for l in open(os.path.join(HERE, "hooks_commits.txt"))] if os.path.exists(os.path.join(HERE, "hooks_commits.txt")) else []
for p in props:
    pid = p["id"]
    path = os.path.join(HERE, "vf", "props", pid.lower() + ".py")
    if not os.path.exists(path):
        na.append({"property_id": pid, "reason": "monitor not built yet in this round (planned: DESIGN.md §4 %s); nothing is claimed for it" % pid})
        continue
    mod = importlib.import_module("vf.props." + pid.lower())
    M = mod.META
    if M.get("not_applicable"):
        na.append({"property_id": pid, "reason": M["not_applicable"]})
        continue
    checks.append({
        "property_id": pid,
        "quick_cmd": f"./check {pid} --tier quick",
        "thorough_cmd": f"./check {pid} --tier thorough",
        "evidence_file": f"evidence/{pid}.json",
        "replay_cmd_template": f"./check {pid} --replay {{path}}",
        "engine": M.get("engine", "monitor"),
        "level_claimed": {"category": M["level"], "text": M["level_text"], "design_ref": M.get("design_ref", "DESIGN.md §4 " + pid)},
        "level_note": M["level_note"],
        "technique": M["technique"],
    })
    engines.setdefault(M.get("engine", "monitor"), []).append(pid)
ENG = {
    "refmodel": ("vf/props", "sequential reference model compared with the real object after every step of an operation history"),
    "vloop": ("vf/vloop.py", "virtual-time asyncio/Tornado loop with quiescence detection; real code, scripted time"),
    "wire": ("vf/wire.py", "scripted IOStream transports, in-process HTTPServer over socketpairs, recording delegate"),
    "oracle": ("vf/refs", "independent reference implementations (RFC readers/encoders) used as oracles over observed outputs"),
    "san": ("vf/san.py", "ASan/UBSan build of speedups.c exercised against byte-wise XOR"),
    "shake": ("vf/shake.py", "sys.monitoring yield injection for thread interleavings + trace-spec checker"),
    "monitor": ("vf/core.py", "sharded subprocess runner, counters, known-findings, evidence"),
}
man = {
    "version": 1,
    "setup_cmd": "./setup.sh",
    "hooks": {"guard": "TORNADO_VERIF", "enable": "checks set TORNADO_VERIF=1 in every worker; monitors attach by subclassing/wrapping from /verif/vf, guarded source hooks (if any) are listed in source_commits",
              "baseline_off_cmd": BASE, "source_commits": hooks_commits, "add_only": True},
    "engines": [{"name": k, "path": ENG.get(k, ENG["monitor"])[0], "serves_properties": v, "kind_free_text": ENG.get(k, ENG["monitor"])[1]} for k, v in sorted(engines.items())],
    "checks": checks,
    "notes": "Runtime monitoring only. Exit codes: 0 held on everything observed, 1 VIOLATION, 2 INCONCLUSIVE (deciding monitor saw too little). Known findings: known_findings.jsonl.",
    "not_applicable": na,
}
json.dump(man, open(os.path.join(HERE, "MANIFEST.json"), "w"), indent=1)
print("checks:", len(checks), "not_applicable:", len(na))
