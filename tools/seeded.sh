#!/bin/sh
# tools/seeded.sh [name...] : apply each seeded/<name>/patch.diff to a scratch copy of /repo/tornado and run
# the check of the property it breaks (meta.json "property"); writes seeded/<name>/result.json
cd "$(dirname "$0")/.."
NAMES="$@"; [ -n "$NAMES" ] || NAMES=$(ls seeded)
for n in $NAMES; do
  d=seeded/$n; [ -f $d/patch.diff ] || continue
  props=$(/venv/bin/python -c "import json;m=json.load(open('$d/meta.json'));p=m['property'];print(' '.join(p if isinstance(p,list) else [p]))")
  S=$(mktemp -d /tmp/vf-seed-XXXXXX); cp -r /repo/tornado $S/tornado; rm -rf $S/tornado/__pycache__
  if ! (cd $S && patch -p1 -s < "$OLDPWD/$d/patch.diff" >/dev/null 2>&1); then echo "$n: PATCH DOES NOT APPLY"; rm -rf $S; continue; fi
  res=""
  for p in $props; do
    log=$(VERIF_TORNADO=$S VERIF_NO_EVIDENCE=1 ./check $p --tier ${TIER:-quick} 2>&1); rc=$?
    mech=$(echo "$log" | sed -n 's/^\[.*\] mechanism=\([^ ]*\).*/\1/p' | sort -u | paste -sd, -)
    echo "$n: $p exit=$rc mechanisms=[$mech]"
    res="$res{\"property\":\"$p\",\"tier\":\"${TIER:-quick}\",\"exit\":$rc,\"caught\":$([ $rc = 1 ] && echo true || echo false),\"mechanisms\":\"$mech\"},"
  done
  echo "[${res%,}]" > $d/result.json
  rm -rf $S
done
