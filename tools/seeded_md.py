#!/venv/bin/python
"""Regenerates SEEDED.md from seeded/*/meta.json + result.json (+ seeded/NOTES.json: how a miss was closed)."""
import glob, json, os
HERE = os.path.dirname(os.path.dirname(os.path.abspath(__file__)))
notes = json.load(open(os.path.join(HERE, "seeded", "NOTES.json")))
rows = []
n = c = 0
for d in sorted(glob.glob(os.path.join(HERE, "seeded", "*"))):
    if not os.path.isdir(d):
        continue
    name = os.path.basename(d)
    m = json.load(open(d + "/meta.json")); r = json.load(open(d + "/result.json"))
    mech = r[0]["mechanisms"].split(",") if r[0]["mechanisms"] else []
    n += 1; c += bool(r[0]["caught"])
    note = notes.get(name, "caught as built")
    cell = lambda s: str(s).replace("|", "/").replace("\n", " ")
    rows.append(f"| {name} | {m['property']} | {cell(m['summary'])[:400]} | {cell(m['needs_to_manifest'])[:300]} | {'yes' if r[0]['caught'] else 'NO'} ({r[0]['tier']}) | {', '.join(mech[:3])}{' …' if len(mech) > 3 else ''} | {note} |")
out = ("# Seeded property-breaking changes\n\nWritten by independent sub-agents that were given only the property text and a scratch worktree of /repo "
       "(never anything from /verif). Round 1 (`*-seedNN`): one change per property; rounds 2 and 3 (`*-r2seedNN`, `*-r3seedNN`): two further changes per property each, round 4 (`*-r4seedNN`): one more per property aimed at whatever a generator built around the statement is least likely to exercise, with "
       "different triggers. Each directory `seeded/<name>/` holds `patch.diff`, `demo.py`, `meta.json` (with the lead's confirmation record from "
       "`tools/verify_seed.sh`: applies at /repo HEAD, the FULL repository suite passes with it, the demo fails with it and passes without) and "
       "`result.json` (last `tools/seeded.sh` run = `./check <property>` against a scratch copy with the patch applied).\n\n"
       f"Totals: {n} changes, {c} caught by the quick tier of the property's check; the remaining ones are assessed as outside the stated property (see their notes).\n\n"
       "| name | property | change | needs to manifest | caught by ./check (tier) | mechanisms (first 3) | note |\n|---|---|---|---|---|---|---|\n" + "\n".join(rows) + "\n")
open(os.path.join(HERE, "SEEDED.md"), "w").write(out)
print(n, c)
