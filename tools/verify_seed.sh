#!/bin/sh
# tools/verify_seed.sh <submission-dir> <name> : independently confirm a seeded change (applies at /repo HEAD in a scratch
# worktree, full repo test-suite passes with it, demo fails with it and passes without), then store it as seeded/<name>/.
SRC="$1"; NAME="$2"
cd "$(dirname "$0")/.."
WT=$(mktemp -d /tmp/vf-sv-XXXXXX); rmdir $WT
git -C /repo worktree add -q --detach $WT HEAD || exit 2
cleanup() { git -C /repo worktree remove --force $WT >/dev/null 2>&1; rm -rf $WT; }
if ! git -C $WT apply "$SRC/patch.diff" 2>/tmp/vs-$NAME.err; then echo "$NAME: patch does not apply: $(head -2 /tmp/vs-$NAME.err)"; cleanup; exit 1; fi
if grep -q 'speedups.c' "$SRC/patch.diff"; then (cd $WT && /venv/bin/python setup.py build_ext --inplace >/dev/null 2>&1); fi
(cd $WT && timeout 120 /venv/bin/python "$SRC/demo.py" >/tmp/vs-$NAME.with 2>&1); rc_with=$?
(cd $WT && nice -n -10 env -u TORNADO_VERIF /venv/bin/python -m pytest -q -rf -p no:cacheprovider --timeout=900 --continue-on-collection-errors -n ${NJ:-8} > /tmp/vs-$NAME.tests 2>&1)
tests_ok=false
if tail -3 /tmp/vs-$NAME.tests | grep -q "1171 passed" && ! tail -3 /tmp/vs-$NAME.tests | grep -q failed; then tests_ok=true; else
  failed=$(grep '^FAILED ' /tmp/vs-$NAME.tests | sed 's/^FAILED \([^ ]*\).*/\1/' | sort -u)
  if [ -n "$failed" ] && (cd $WT && nice -n -10 env -u TORNADO_VERIF /venv/bin/python -m pytest -q -p no:cacheprovider --timeout=900 $failed >/tmp/vs-$NAME.tests2 2>&1); then tests_ok="true (after serial rerun of $(echo "$failed" | wc -l) load-flaky tests)"; fi
fi
git -C $WT checkout -q -- . ; if grep -q 'speedups.c' "$SRC/patch.diff"; then (cd $WT && /venv/bin/python setup.py build_ext --inplace >/dev/null 2>&1); fi
(cd $WT && timeout 120 /venv/bin/python "$SRC/demo.py" >/tmp/vs-$NAME.without 2>&1); rc_without=$?
cleanup
echo "$NAME: demo_with_change_exit=$rc_with demo_without_exit=$rc_without tests_pass=$tests_ok :: $(tail -1 /tmp/vs-$NAME.with | cut -c1-160)"
if [ "$rc_with" != 0 ] && [ "$rc_without" = 0 ] && [ "$tests_ok" != false ]; then
  mkdir -p seeded/$NAME; cp "$SRC/patch.diff" "$SRC/demo.py" seeded/$NAME/
  /venv/bin/python - "$SRC/meta.json" seeded/$NAME/meta.json "$rc_with" "$rc_without" "$tests_ok" <<'PY'
import json, sys
m = json.load(open(sys.argv[1]))
m["confirmed_by_lead"] = {"applies_at_repo_head": True, "demo_exit_with_change": int(sys.argv[3]), "demo_exit_without_change": int(sys.argv[4]),
                          "full_repo_suite_passes_with_change": sys.argv[5], "how": "tools/verify_seed.sh: scratch git worktree of /repo HEAD, git apply, demo.py both ways, full pytest suite"}
json.dump(m, open(sys.argv[2], "w"), indent=1)
PY
  echo "$NAME: KEPT"
else echo "$NAME: REJECTED"; fi
rm -f /tmp/vs-$NAME.*
