#!/opt/veriftools/pyvenv/bin/python
"""Validates MANIFEST.json and evidence/*.json against the given schemas (uses the tooling venv's jsonschema)."""
import glob, json, os, sys
import jsonschema
HERE = os.path.dirname(os.path.dirname(os.path.abspath(__file__)))
ms = json.load(open("/root/.vp/MANIFEST.schema.json")); es = json.load(open("/root/.vp/EVIDENCE.schema.json"))
bad = 0
try:
    jsonschema.validate(json.load(open(os.path.join(HERE, "MANIFEST.json"))), ms); print("MANIFEST ok")
except Exception as e:
    bad += 1; print("MANIFEST INVALID", str(e)[:500])
for f in sorted(glob.glob(os.path.join(HERE, "evidence", "*.json"))):
    try:
        jsonschema.validate(json.load(open(f)), es)
    except Exception as e:
        bad += 1; print("INVALID", f, str(e)[:400])
print("evidence files:", len(glob.glob(os.path.join(HERE, "evidence", "*.json"))), "bad:", bad)
sys.exit(1 if bad else 0)
