#!/bin/sh
# tools/sweep.sh "<seeds>" <tier> [ids...] : run checks, print one line per (id, seed): exit code + wall
cd "$(dirname "$0")/.."
SEEDS="${1:-0}"; TIER="${2:-quick}"; shift 2 2>/dev/null
IDS="$@"; [ -n "$IDS" ] || IDS=$(ls vf/props/c[0-9]*.py | sed 's#.*/c\([0-9]*\)\.py#C\1#')
for id in $IDS; do for s in $SEEDS; do
  t0=$(date +%s.%N); out=$(./check $id --tier $TIER --seed $s 2>&1); rc=$?; t1=$(date +%s.%N)
  printf "%s seed=%s tier=%s exit=%s wall=%.1fs %s\n" $id $s $TIER $rc $(echo "$t1 - $t0" | bc) "$(echo "$out" | grep -E '^(VIOLATION|INCONCLUSIVE|KNOWN-FINDING)' | head -3 | tr '\n' ' ' | cut -c1-300)"
done; done
