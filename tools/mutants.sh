#!/bin/sh
# tools/mutants.sh CNN [tier]: apply every mutants/CNN/*.patch to a scratch copy of /repo/tornado,
# run the check against it, and write mutants/CNN/results.json.  Optional file mutants/CNN/tests.txt
# lists repo test modules (e.g. "tornado/test/httputil_test.py") used to label passes_repo_tests.
ID="$1"; TIER="${2:-quick}"
cd "$(dirname "$0")/.."
OUT="mutants/$ID/results.json"; echo "[" > "$OUT.tmp"; first=1
for p in mutants/$ID/*.patch; do
  [ -f "$p" ] || continue
  S=$(mktemp -d /tmp/vf-mut-XXXXXX)
  cp -r /repo/tornado "$S/tornado"; rm -rf "$S/tornado/__pycache__"
  if ! (cd "$S" && patch -p1 -s < "$OLDPWD/$p" >/dev/null 2>&1); then
    echo "PATCH DOES NOT APPLY: $p"; rm -rf "$S"; continue
  fi
  pt=null
  if [ -f "mutants/$ID/tests.txt" ]; then
    if (cd "$S" && timeout 600 /venv/bin/python -m pytest -q -x -p no:cacheprovider $(cat "$OLDPWD/mutants/$ID/tests.txt") >/dev/null 2>&1); then pt=true; else pt=false; fi
  fi
  log=$(VERIF_TORNADO="$S" VERIF_NO_EVIDENCE=1 ./check "$ID" --tier "$TIER" 2>&1); rc=$?
  mech=$(echo "$log" | sed -n 's/^\[.*\] mechanism=\([^ ]*\).*/"\1"/p' | sort -u | paste -sd, -)
  caught=false; [ "$rc" = 1 ] && caught=true
  [ $first = 1 ] || echo "," >> "$OUT.tmp"; first=0
  printf '{"patch": "%s", "passes_repo_tests": %s, "caught_%s": %s, "exit": %s, "mechanisms": [%s]}' "$(basename "$p")" "$pt" "$TIER" "$caught" "$rc" "$mech" >> "$OUT.tmp"
  echo "$(basename "$p"): exit=$rc caught=$caught tests_pass=$pt mech=[$mech]"
  rm -rf "$S"
done
echo "]" >> "$OUT.tmp"; mv "$OUT.tmp" "$OUT"
